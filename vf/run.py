"""Dispatcher:  python -m vf.run <ID> <quick|thorough> [--replay FILE]

Each property module vf.props.<ID> provides
    LEVEL, RULE, ASSUMPTIONS, TECHNIQUE
    plan(tier, seed) -> list of JSON-able shard specs (each may carry "timeout")
    run_shard(spec, rec)         executes the shard under its monitors
    run_case(case, rec)          re-executes one case (replay)
    classify(witness) -> key|None   pure predicate naming the mechanism of a violation
    finish(rec) (optional)       parent-side checks on the merged record
Exit codes: 0 held (or only listed known findings), 1 VIOLATION, 2 INCONCLUSIVE.
"""
import hashlib
import importlib
import json
import os
import shutil
import subprocess
import sys
import time

from .rec import Recorder, jsonable

VERIF = os.path.dirname(os.path.dirname(os.path.abspath(__file__)))
REPO = os.environ.get("VERIF_REPO", "/repo")
PY = sys.executable
NPROC = int(os.environ.get("VERIF_JOBS", "16"))


def tree_identity(files=()):
    def git(*a):
        try:
            return subprocess.run(["git", "-C", REPO] + list(a), capture_output=True, text=True, timeout=30).stdout.strip()
        except Exception:
            return "?"

    ident = {"head": git("rev-parse", "HEAD"), "dirty": bool(git("status", "--porcelain", "--", "src"))}
    sh = {}
    for f in files:
        p = os.path.join(REPO, f)
        try:
            sh[f] = hashlib.sha256(open(p, "rb").read()).hexdigest()[:16]
        except OSError:
            sh[f] = "missing"
    ident["sha256_16"] = sh
    return ident


def check_import_location():
    import pydrobert.speech as ps

    want = os.path.join(REPO, "src")
    got = os.path.dirname(os.path.abspath(ps.__file__))
    if not got.startswith(os.path.abspath(want)):
        raise SystemExit("pydrobert.speech imported from %s, not from %s" % (got, want))


def load_findings():
    p = os.path.join(VERIF, "known_findings.json")
    if not os.path.exists(p):
        return []
    return json.load(open(p))


def worker_main(argv):
    pid, tier, seed, workdir, idx = argv[0], argv[1], int(argv[2]), argv[3], int(argv[4])
    check_import_location()
    mod = importlib.import_module("vf.props." + pid)
    specs = json.load(open(os.path.join(workdir, "plan.json")))
    rec = Recorder(pid, tier, seed, idx)
    rec.classifier = getattr(mod, "classify", None)
    from . import covmon

    cov_on = covmon.start(os.path.join(REPO, "src"))
    if specs[idx].get("optimized"):
        rec.count("shards_run_in_an_interpreter_started_with_dash_O")
        if sys.flags.optimize < 1:
            rec.inconc("shard %d was to run under -O but sys.flags.optimize is %d" % (idx, sys.flags.optimize))
    try:
        mod.run_shard(specs[idx], rec)
    except Exception:
        import traceback

        rec.inconc("shard %d crashed in harness: %s" % (idx, traceback.format_exc().strip().splitlines()[-1]))
        rec.note(traceback.format_exc())
    if cov_on:
        covmon.stop()
        rec.extra["anchor_lines_hit"] = covmon.hits_by_file()
    rec.dump(os.path.join(workdir, "shard%d.pkl" % idx))
    return 0


def run_shards(pid, tier, seed, specs, workdir):
    json.dump(specs, open(os.path.join(workdir, "plan.json"), "w"))
    default_to = 3600 if tier == "quick" else 6 * 3600
    pending = list(range(len(specs)))
    running = {}
    results = {}
    env = dict(os.environ)
    env.setdefault("OMP_NUM_THREADS", "1")
    env.setdefault("MKL_NUM_THREADS", "1")
    env.setdefault("OPENBLAS_NUM_THREADS", "1")
    while pending or running:
        while pending and len(running) < NPROC:
            i = pending.pop(0)
            log = open(os.path.join(workdir, "shard%d.log" % i), "w")
            opt = bool(specs[i].get("optimized"))
            p = subprocess.Popen(
                [PY] + (["-O"] if opt else []) + ["-m", "vf.run", "--worker", pid, tier, str(seed), workdir, str(i)],
                stdout=log, stderr=subprocess.STDOUT, env=dict(env, PYTHONOPTIMIZE="1") if opt else env, cwd=VERIF, start_new_session=True,
            )
            running[i] = (p, time.time(), specs[i].get("timeout", default_to), log)
        time.sleep(0.05)
        for i, (p, t0, to, log) in list(running.items()):
            rc = p.poll()
            if rc is None and time.time() - t0 > to:
                try:
                    os.killpg(p.pid, 9)
                except OSError:
                    pass
                p.wait()
                rc = "watchdog"
            if rc is not None:
                log.close()
                del running[i]
                results[i] = rc
    return results


def main(argv=None):
    argv = list(sys.argv[1:] if argv is None else argv)
    if argv and argv[0] == "--worker":
        return worker_main(argv[1:])
    if not argv:
        print(__doc__)
        return 2
    pid = argv[0]
    replay = None
    tier = os.environ.get("VERIF_TIER", "quick")
    rest = argv[1:]
    while rest:
        a = rest.pop(0)
        if a == "--replay":
            replay = rest.pop(0)
        elif a in ("quick", "thorough"):
            tier = a
    seed = int(os.environ.get("VERIF_SEED", "0"))
    check_import_location()
    mod = importlib.import_module("vf.props." + pid)
    t0 = time.time()

    if replay:
        w = json.load(open(replay))
        rec = Recorder(pid, tier, w.get("seed", seed))
        from . import monitor as _monitor

        _monitor.AMBIENT["every"] = 1  # a replayed case repeats every stateless call under the other process settings
        mod.run_case(w["case"], rec)
        if rec.n_violations:
            print("replay reproduces: %d violation(s)" % rec.n_violations)
            print(json.dumps(rec.violations[0], indent=1)[:4000])
            print("VIOLATION property=%s replay=%s" % (pid, replay))
            return 1
        print("replay: case held (%d evaluations)" % rec.evaluations)
        return 0

    workdir = os.path.join(VERIF, ".work", "%s-%s-%d" % (pid, tier, os.getpid()))
    shutil.rmtree(workdir, ignore_errors=True)
    os.makedirs(workdir)
    specs = mod.plan(tier, seed)
    # the same workload in an interpreter started with -O (assert statements and `if __debug__:` blocks are compiled away; child
    # processes inherit PYTHONOPTIMIZE=1): a module names how many of its leading / trailing shards are run once more that way
    nh, nt = int(getattr(mod, "OPTIMIZED_SHARDS", 0)), int(getattr(mod, "OPTIMIZED_TAIL", 0))
    dup = [dict(s, optimized=True) for s in specs[:nh]] + ([dict(s, optimized=True) for s in specs[len(specs) - nt:]] if nt else [])
    specs = specs + dup
    if getattr(mod, "SUITE_TESTS", None) and (tier == "thorough" or os.environ.get("VERIF_SUITE") == "1"):
        # the repository's own tests as one more monitored workload
        specs.append({"suite": list(mod.SUITE_TESTS), "timeout": 3600})
    results = run_shards(pid, tier, seed, specs, workdir)
    rec = Recorder(pid, tier, seed, -1)
    for i, rc in sorted(results.items()):
        p = os.path.join(workdir, "shard%d.pkl" % i)
        if rc == "watchdog":
            rec.inconc("shard %d hit the wall-clock watchdog" % i)
        elif os.path.exists(p):
            rec.merge(Recorder.load(p))
        else:
            tail = open(os.path.join(workdir, "shard%d.log" % i)).read()[-1500:]
            rec.inconc("shard %d died (rc=%s) without a result: %s" % (i, rc, tail.strip().splitlines()[-1] if tail.strip() else ""))
            rec.note(tail)
    if hasattr(mod, "finish"):
        mod.finish(rec)

    # ---- classify violations against the committed known-findings list
    findings = [f for f in load_findings() if f.get("property") == pid]
    known = {f["key"]: f for f in findings if f.get("status") == "known"}
    seen_known = {}
    unlisted = []
    for w in rec.violations:
        key = None
        try:
            key = mod.classify(w)
        except Exception:
            key = None
        w["mechanism"] = key
        if key is not None and key in known:
            seen_known.setdefault(key, []).append(w)
        else:
            unlisted.append(w)
    n_kept = len(rec.violations)
    # violations beyond the kept witnesses cannot be classified -> treat as unlisted if any unlisted seen
    exit_code = 0
    rdir = os.path.join(VERIF, "replays", pid)
    for key, ws in seen_known.items():
        os.makedirs(rdir, exist_ok=True)
        path = os.path.join(rdir, "known-%s.json" % key.replace("/", "_"))
        json.dump({"property": pid, "tier": tier, "seed": seed, "mechanism": key, **ws[0]}, open(path, "w"), indent=1)
        print("KNOWN-FINDING: property=%s %s: %s (%d witness(es) this run, e.g. %s)" % (
            pid, key, known[key].get("what", ""), len(ws), os.path.relpath(path, VERIF)))
    for key in known:
        if key not in seen_known:
            print("note: known finding %s/%s was not re-observed in this run" % (pid, key))
    if unlisted:
        os.makedirs(rdir, exist_ok=True)
        for n, w in enumerate(unlisted[:10]):
            path = os.path.join(rdir, "violation-%s-%d-%d.json" % (tier, seed, n))
            json.dump({"property": pid, "tier": tier, "seed": seed, **w}, open(path, "w"), indent=1)
            print("VIOLATION property=%s replay=%s" % (pid, os.path.relpath(path, VERIF)))
            print("  what: %s" % str(w.get("what"))[:600])
        exit_code = 1
    else:
        # witnesses are bounded per mechanism; the per-mechanism counters cover every violation
        stray = {k: v for k, v in rec.key_counts.items() if k not in known}
        if stray:
            print("VIOLATION property=%s replay=(witness not retained: %r)" % (pid, stray))
            exit_code = 1

    if exit_code == 0 and rec.evaluations == 0:
        rec.inconc("no evaluations")
    if exit_code == 0 and rec.inconclusive:
        exit_code = 2

    wall = time.time() - t0
    cov = {
        "evaluations": int(rec.evaluations),
        "distinct_nontrivial": len(rec.nontrivial),
        "rule": mod.RULE,
        "samples": rec.samples[:8] or ["(none)"],
        "counters": {k: int(v) for k, v in sorted(rec.counters.items())},
        "shards": len(specs),
        "known_findings_reobserved": {k: int(rec.key_counts.get(k, len(v))) for k, v in seen_known.items()},
        "unlisted_violations": len(unlisted),
        "inconclusive": rec.inconclusive,
        "tree": tree_identity(getattr(mod, "ANCHOR_FILES", ())),
        "technique": getattr(mod, "TECHNIQUE", ""),
    }
    if getattr(mod, "EXHAUSTIVE_PARTS", None):
        cov["exhaustive_parts"] = mod.EXHAUSTIVE_PARTS
    hits = rec.extra.pop("anchor_lines_hit", None)
    child = rec.extra.pop("anchor_lines_hit_children", None)
    if child:
        hits = dict(hits or {})
        for f, ls in child.items():
            hits[f] = sorted(set(hits.get(f, [])) | set(ls))
    if hits is not None:
        from . import covmon

        try:
            cov["anchor_coverage"] = covmon.summarise(hits, os.path.join(REPO, "src"), getattr(mod, "ANCHOR_FILES", ()))
        except Exception as e:  # never let reporting break a verdict
            cov["anchor_coverage"] = {"error": repr(e)}
    for k, v in rec.extra.items():
        cov[k] = jsonable(v)
    ev = {
        "property_id": pid,
        "tier": tier,
        "seed": seed,
        "level": mod.LEVEL,
        "coverage": cov,
        "assumptions": list(mod.ASSUMPTIONS),
        "wall_s": round(wall, 2),
        "violations": int(rec.n_violations),
    }
    os.makedirs(os.path.join(VERIF, "evidence"), exist_ok=True)
    json.dump(ev, open(os.path.join(VERIF, "evidence", pid + ".json"), "w"), indent=1)
    shutil.rmtree(workdir, ignore_errors=True)
    try:
        os.rmdir(os.path.join(VERIF, ".work"))
    except OSError:
        pass
    for r in rec.inconclusive:
        print("INCONCLUSIVE property=%s reason=%s" % (pid, r))
    print("%s %s seed=%d: evaluations=%d distinct_nontrivial=%d violations=%d (unlisted %d) wall=%.1fs -> exit %d" % (
        pid, tier, seed, rec.evaluations, len(rec.nontrivial), rec.n_violations, len(unlisted), wall, exit_code))
    return exit_code


if __name__ == "__main__":
    sys.exit(main())
