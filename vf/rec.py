"""Per-shard recorder: what the monitors observed, violations, counters.

A Recorder lives in one worker process; `dump()` pickles it for the parent, which merges
all shards (`merge`) and turns the result into an evidence file and an exit code.
"""
import hashlib
import json
import pickle
import time
from collections import Counter

import numpy as np

MAX_SAMPLES = 6
MAX_WITNESSES = 40


def jsonable(o):
    """Best-effort conversion of numpy-laden structures to JSON-able ones."""
    if isinstance(o, dict):
        return {str(k): jsonable(v) for k, v in o.items()}
    if isinstance(o, (list, tuple, set, frozenset)):
        return [jsonable(v) for v in o]
    if isinstance(o, np.ndarray):
        if o.size <= 64:
            return jsonable(o.tolist())
        return {"ndarray": list(o.shape), "dtype": str(o.dtype), "head": jsonable(o.ravel()[:8].tolist())}
    if isinstance(o, (np.integer,)):
        return int(o)
    if isinstance(o, (np.floating,)):
        return float(o)
    if isinstance(o, (np.bool_,)):
        return bool(o)
    if isinstance(o, complex):
        return [o.real, o.imag]
    if isinstance(o, float):
        if o != o or o in (float("inf"), float("-inf")):
            return repr(o)
        return o
    if isinstance(o, (int, str, bool)) or o is None:
        return o
    if isinstance(o, bytes):
        return {"bytes_hex": o[:64].hex(), "len": len(o)}
    if isinstance(o, type):
        return o.__name__
    return repr(o)


def sig_hash(sig):
    if not isinstance(sig, (bytes, str)):
        sig = json.dumps(jsonable(sig), sort_keys=True)
    if isinstance(sig, str):
        sig = sig.encode()
    return int.from_bytes(hashlib.blake2b(sig, digest_size=8).digest(), "little")


class Recorder:
    def __init__(self, prop, tier, seed, shard=0):
        self.prop, self.tier, self.seed, self.shard = prop, tier, seed, shard
        self.evaluations = 0
        self.nontrivial = set()
        self.counters = Counter()
        self.samples = []
        self.violations = []  # witness dicts (bounded)
        self.n_violations = 0
        self.inconclusive = []
        self.notes = []
        self.t0 = time.time()
        self.extra = {}
        self.classifier = None
        self._kept = {}
        self.key_counts = Counter()

    # ---- observation
    def ev(self, n=1):
        self.evaluations += n

    def nt(self, sig):
        self.nontrivial.add(sig_hash(sig))

    def count(self, name, n=1):
        self.counters[name] += n

    def sample(self, obj, force=False):
        if force or len(self.samples) < MAX_SAMPLES:
            self.samples.append(jsonable(obj))

    def violation(self, witness):
        """witness: dict with at least 'case' (re-runnable) and 'what'."""
        self.n_violations += 1
        w = jsonable(witness)
        key = None
        if self.classifier is not None:
            try:
                key = self.classifier(w)
            except Exception:
                key = None
        # bounded per mechanism, so that a frequent known finding cannot crowd out anything else
        self.key_counts[str(key)] += 1
        n = self._kept.get(key, 0)
        if n < (MAX_WITNESSES if key is None else 5):
            self._kept[key] = n + 1
            w.setdefault("shard", self.shard)
            self.violations.append(w)

    def inconc(self, reason):
        if reason not in self.inconclusive:
            self.inconclusive.append(reason)

    def note(self, s):
        if len(self.notes) < 50:
            self.notes.append(s)

    # ---- transport
    def dump(self, path):
        d = dict(self.__dict__)
        d["classifier"] = None
        with open(path, "wb") as f:
            pickle.dump(d, f)

    @classmethod
    def load(cls, path):
        with open(path, "rb") as f:
            d = pickle.load(f)
        r = cls(d["prop"], d["tier"], d["seed"], d["shard"])
        r.__dict__.update(d)
        return r

    def merge(self, other):
        self.evaluations += other.evaluations
        self.nontrivial |= other.nontrivial
        self.counters.update(other.counters)
        for s in other.samples:
            if len(self.samples) < MAX_SAMPLES * 2:
                self.samples.append(s)
        self.n_violations += other.n_violations
        self.key_counts.update(getattr(other, "key_counts", {}))
        self.violations.extend(other.violations)
        for r in other.inconclusive:
            self.inconc(r)
        self.notes.extend(other.notes[: max(0, 50 - len(self.notes))])
        for k, v in other.extra.items():
            if k not in self.extra:
                self.extra[k] = v
            elif isinstance(v, dict) and isinstance(self.extra[k], dict):
                for kk, vv in v.items():
                    if isinstance(vv, (int, float)) and isinstance(self.extra[k].get(kk), (int, float)):
                        if k.startswith("worst"):
                            self.extra[k][kk] = max(self.extra[k][kk], vv)
                        else:
                            self.extra[k][kk] += vv
                    elif isinstance(vv, (list, set)) and isinstance(self.extra[k].get(kk), (list, set)):
                        self.extra[k][kk] = sorted(set(self.extra[k][kk]) | set(vv))
                    else:
                        self.extra[k].setdefault(kk, vv)
