"""Source-free failpoints for signals-to-torch-feat-dir.

    python -m vf.fp_launcher <K> <SIGKILL|SIGINT|NONE> <logfile> -- <tool arguments...>

Runs the real command-line entry point with sys.monitoring LINE events enabled on the code
object of signals_to_torch_feat_dir, from its output loop (`for ... in loader`) onwards.
Every event is appended to <logfile> (unbuffered os.write, so the record survives a hard
kill) as "<index>\t<kind>" where kind is one of save / manifest / loop / other, classified
by the source text of the line (not by line numbers).  On the K-th event the process kills
itself with SIGKILL, or raises SIGINT in the main thread (soft interrupt); K <= 0 only logs.
"""
import inspect
import os
import signal
import sys


def main():
    K, sig, logfile = int(sys.argv[1]), sys.argv[2], sys.argv[3]
    args = sys.argv[5:] if sys.argv[4] == "--" else sys.argv[4:]
    if os.environ.get("VF_MP_START"):
        # the start method of worker processes is the platform's / the application's choice (spawn on macOS, Windows, with CUDA)
        import multiprocessing

        multiprocessing.set_start_method(os.environ["VF_MP_START"], force=True)
    from pydrobert.speech import command_line as cl

    fn = cl.signals_to_torch_feat_dir
    code = fn.__code__
    src, first = inspect.getsourcelines(fn)
    loop_start = next(first + i for i, l in enumerate(src) if " in loader" in l and l.lstrip().startswith("for "))
    fd = os.open(logfile, os.O_WRONLY | os.O_CREAT | os.O_APPEND, 0o644)
    mon = sys.monitoring
    tool = mon.DEBUGGER_ID
    mon.use_tool_id(tool, "vf-failpoint")
    n = [0]

    def kind(line):
        text = src[line - first].strip() if 0 <= line - first < len(src) else ""
        if "torch.save" in text:
            return "save"
        if "print(" in text and "manifest" in text:
            return "manifest"
        if text.startswith("for ") and " in loader" in text:
            return "loop"
        return "other"

    srcfile = code.co_filename

    def on_line(c, line):
        if c is not code or line < loop_start:
            # coverage record (once per location) for the tool's own source file; everything else is switched off
            if c.co_filename == srcfile:
                os.write(fd, ("C\t%d\n" % line).encode())
            return mon.DISABLE
        n[0] += 1
        os.write(fd, ("%d\t%s\t%d\n" % (n[0], kind(line), line)).encode())
        if n[0] == K:
            os.write(fd, ("FIRED\t%d\t%s\n" % (K, sig)).encode())
            if sig == "SIGKILL":
                os.kill(os.getpid(), signal.SIGKILL)
            elif sig == "SIGINT":
                signal.raise_signal(signal.SIGINT)

    mon.register_callback(tool, mon.events.LINE, on_line)
    mon.set_events(tool, mon.events.LINE)
    rc = fn(args)
    os.write(fd, ("DONE\t%r\n" % (rc,)).encode())
    sys.exit(rc or 0)


if __name__ == "__main__":
    main()
