"""Construction spy for the two frame computers.

Wraps the constructors so that, for every STFT / SI computer built by anyone, the monitor
knows (a) the constructor arguments as given (public configuration) and (b) the buffer
widths the computer asked its bank for while it was being built - the DFT size is not part
of the public API, so it is *observed* rather than read from a private attribute.
"""
import inspect
import weakref

from . import monitor

INFO = weakref.WeakKeyDictionary()  # computer -> dict(kind, args, trunc_widths, ir_widths)
_REC = {"stack": []}


def _bank_classes():
    from pydrobert.speech import filters as F

    return [F.TriangularOverlappingFilterBank, F.Fbank, F.GaborFilterBank, F.ComplexGammatoneFilterBank]


def attach():
    from pydrobert.speech import compute as C

    def post_trunc(c):
        if _REC["stack"] and c.exc is None:
            w = c.args[1] if len(c.args) > 1 else c.kwargs.get("width")
            _REC["stack"][-1]["trunc"].add(int(w))

    def post_ir(c):
        if _REC["stack"] and c.exc is None:
            w = c.args[1] if len(c.args) > 1 else c.kwargs.get("width")
            _REC["stack"][-1]["ir"].add(int(w))

    for cls in _bank_classes():
        if "get_truncated_response" in cls.__dict__:
            monitor.attach(cls, "get_truncated_response", post=post_trunc, reentrant=True, op=cls.__name__ + ".get_truncated_response[spy]")
        if "get_impulse_response" in cls.__dict__:
            monitor.attach(cls, "get_impulse_response", post=post_ir, reentrant=True, op=cls.__name__ + ".get_impulse_response[spy]")

    def mk(cls, kind):
        sig = inspect.signature(cls.__init__)

        def pre(c):
            _REC["stack"].append({"trunc": set(), "ir": set()})
            return True

        def post(c):
            seen = _REC["stack"].pop() if _REC["stack"] else {"trunc": set(), "ir": set()}
            if c.exc is not None:
                return
            try:
                ba = sig.bind(c.self, *c.args, **c.kwargs)
                ba.apply_defaults()
                args = dict(ba.arguments)
                args.pop("self", None)
            except TypeError:
                args = None
            INFO[c.self] = {"kind": kind, "args": args, "trunc_widths": sorted(seen["trunc"]), "ir_widths": sorted(seen["ir"])}

        monitor.attach(cls, "__init__", pre=pre, post=post, reentrant=True, op=cls.__name__ + ".__init__[spy]")

    mk(C.ShortTimeFourierTransformFrameComputer, "stft")
    mk(C.ShortIntegrationFrameComputer, "si")


def info(comp):
    return INFO.get(comp)


def adopt(copy_, original):
    """a copy (copy.deepcopy, pickle round trip) of a computer has the original's public configuration"""
    if original in INFO:
        INFO[copy_] = INFO[original]


def window_for(args, style, width):
    """window samples from a *fresh* WindowFunction of the configured kind"""
    from pydrobert.speech.alias import alias_factory_subclass_from_arg
    from pydrobert.speech import filters as F
    import copy

    wf = args.get("window_function")
    if wf is None:
        w = F.GammaWindow() if style == "causal" else F.HannWindow()
    elif isinstance(wf, F.WindowFunction):
        w = copy.deepcopy(wf)
    else:
        w = alias_factory_subclass_from_arg(F.WindowFunction, copy.deepcopy(wf))
    return w.get_impulse_response(width)


def documented_style(comp, args):
    """the frame style the documentation prescribes: the constructor's argument, and when that is left out,
    "centered" for a zero-phase bank and "causal" otherwise"""
    st = args.get("frame_style")
    if st is None:
        st = "centered" if comp.bank.is_zero_phase else "causal"
    return st
