"""Result-history monitor for objects the documentation treats as stateless transforms
(pre-/post-processors, window functions): whatever a call returned stays what it was when the same
object is called again, and a later result does not live in the memory of an earlier one.

The monitor keeps the last few results of every observed object (as a user holding on to them would)
together with a private copy, and on the next call on that object
  * compares each kept result with its copy   -> "changed by a later call"
  * tests the new result for shared memory    -> "shares memory with an earlier result"
Arrays the caller asked the call to overwrite (in_place=True inputs) are the caller's own: kept
results living in them are dropped before the comparison, and a result that is such an array is not
kept.
"""
import weakref

import numpy as np


def _shares(a, b):
    if not (isinstance(a, np.ndarray) and isinstance(b, np.ndarray)) or a.size == 0 or b.size == 0:
        return False
    try:
        return bool(np.shares_memory(a, b, max_work=100000))
    except Exception:
        return bool(np.may_share_memory(a, b))


class ResultHistory:
    def __init__(self, rec, v, keep=3):
        self.rec = rec
        self.v = v
        self.keep = keep
        self._h = {}
        # under the repository's own tests (vf.pytest_plugin) the client is the test code, which is free to overwrite the
        # arrays it was handed: the history statements are about results the client left alone, so they are made by the
        # harness workloads only
        import os

        self.enabled = not os.environ.get("VF_PLUGIN_PROP")

    def _entry(self, obj):
        key = id(obj)
        ent = self._h.get(key)
        if ent is not None and ent[0]() is obj:
            return ent[1]
        try:
            ref = weakref.ref(obj)
        except TypeError:
            return None
        lst = []
        self._h[key] = (ref, lst)
        if len(self._h) > 256:
            for k in [k for k, (r, _) in self._h.items() if r() is None]:
                del self._h[k]
        return lst

    def observe(self, obj, result, label, overwritten=(), **info):
        if not self.enabled:
            return
        lst = self._entry(obj)
        if lst is None or not isinstance(result, np.ndarray):
            return
        own = [a for a in overwritten if isinstance(a, np.ndarray)]
        lst[:] = [(r, cp) for (r, cp) in lst if not any(_shares(r, a) for a in own)]
        for (r, cp) in lst:
            self.rec.count("result_history_comparisons")
            if r.shape != cp.shape or not np.array_equal(r, cp, equal_nan=r.dtype.kind in "fc"):
                self.v("%s: a result returned by an earlier call on the same object was changed by a later call" % label, check="history_changed", **info)
            elif _shares(r, result) and not any(_shares(result, a) for a in own):
                self.v("%s: the result shares memory with the result of an earlier call on the same object" % label, check="history_aliasing", **info)
        if len(lst) >= 1:
            self.rec.count("calls_on_an_object_with_history")
        if not any(_shares(result, a) for a in own):
            lst.append((result, result.copy()))
            del lst[:-self.keep]
