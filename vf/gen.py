"""Seeded generators shared by the computer properties (C01-C04, C14): bank and computer
configurations (JSON-able dicts, built through the library's own alias factory), signals,
chunk compositions."""
import numpy as np

RATES = [1000, 2000, 4000, 7999, 8000, 16000]
SCALES = ["mel", "bark", "linear", "octave"]
WINDOWS = ["hann", "hamming", "bartlett", "blackman", "gamma", {"name": "gamma", "order": 2, "peak": 0.6}]


def scale_cfg(rng, name=None, low_hz=20.0):
    name = name or str(rng.choice(SCALES))
    if name == "linear":
        return {"name": "linear", "low_hz": float(rng.choice([0.0, low_hz])), "slope_hz": float(rng.choice([1.0, 0.5, 2.0]))}
    if name == "octave":
        return {"name": "octave", "low_hz": float(max(1.0, low_hz * rng.uniform(0.3, 1.0)))}
    return name


def bank_cfg(rng, rate=None, kinds=("tri", "fbank", "gabor", "gammatone"), max_filts=6, small=True):
    """A random filter-bank configuration.  small=True keeps temporal supports short
    (wide bands relative to the rate) so that frames are tens of samples."""
    rate = int(rate or rng.choice(RATES))
    nyq = rate / 2
    kind = str(rng.choice(list(kinds)))
    nf = int(rng.integers(1, max_filts + 1))
    where = str(rng.choice(["inside", "touch0", "touchnyq", "full"]))
    if where == "inside":
        lo = float(rng.uniform(0.04, 0.3) * nyq)
        hi = float(rng.uniform(0.6, 0.95) * nyq)
    elif where == "touch0":
        lo = 0.0 if rng.random() < 0.6 else float(rng.uniform(0.0, 0.02) * nyq)
        hi = float(rng.uniform(0.5, 0.95) * nyq)
    elif where == "touchnyq":
        lo = float(rng.uniform(0.04, 0.4) * nyq)
        hi = float(np.floor(nyq)) if rng.random() < 0.6 else float(np.floor(nyq * rng.uniform(0.97, 1.0)))
    else:
        lo, hi = 0.0, float(np.floor(nyq))
    if not small:
        nf = int(rng.integers(1, 41))
    if kind == "vfrealcos":
        # vf/userbank.py: a bank written against the public LinearFilterBank interface
        return {"name": kind, "num_filts": nf, "sampling_rate": rate, "widen": float(rng.choice([0.75, 1.5, 3.0]))}
    cfg = {"name": kind, "num_filts": nf, "sampling_rate": rate, "low_hz": lo, "high_hz": hi}
    if kind == "fbank":
        cfg["analytic"] = bool(rng.random() < 0.5)
    else:
        sc = scale_cfg(rng, low_hz=max(lo, 1.0))
        if isinstance(sc, dict) and sc["name"] == "octave" and lo <= 0:
            cfg["low_hz"] = lo = float(rng.uniform(0.01, 0.05) * nyq)
            sc["low_hz"] = float(lo * rng.uniform(0.3, 1.0))
        cfg["scaling_function"] = sc
        if kind == "tri":
            cfg["analytic"] = bool(rng.random() < 0.5)
        elif kind == "gabor":
            cfg["scale_l2_norm"] = bool(rng.random() < 0.3)
            cfg["erb"] = bool(rng.random() < 0.3)
        else:
            cfg["order"] = int(rng.integers(1, 7))
            cfg["max_centered"] = bool(rng.random() < 0.4)
            cfg["scale_l2_norm"] = bool(rng.random() < 0.25)
            cfg["erb"] = bool(rng.random() < 0.3)
    return cfg


def ms_for(samples, rate):
    """a millisecond value that int(0.001 * ms * rate) maps to exactly `samples`"""
    return (samples + 0.5) * 1000.0 / rate


def stft_cfg(rng, bank=None, fl=None, fs=None, allow_fs_gt_fl=False):
    bank = bank or bank_cfg(rng, kinds=("tri", "fbank", "gabor", "gammatone", "tri", "fbank", "gabor", "gammatone", "vfrealcos"))
    rate = bank["sampling_rate"]
    if fl is None:
        r = rng.random()
        if r < 0.12:
            fl = None  # default: derived from the bank
        else:
            fl = int(rng.choice([1, 2, 3, 4, 5, 6, 7, 8, 9, 12, 15, 16, 17, 24, 31, 32, 33, 40, 63, 64]))
    if fs is None:
        top = fl if (fl and not allow_fs_gt_fl) else (fl or 8) + 4
        fs = int(rng.integers(1, max(1, top) + 1))
        if rng.random() < 0.15:
            fs = 1
        elif rng.random() < 0.1 and fl:
            fs = fl
    style = str(rng.choice(["causal", "centered"]))
    cfg = {
        "name": "stft", "bank": bank,
        "frame_length_ms": None if fl is None else ms_for(fl, rate),
        "frame_shift_ms": ms_for(fs, rate),
        "frame_style": style,
        "include_energy": bool(rng.random() < 0.4),
        "pad_to_nearest_power_of_two": bool(rng.random() < 0.5),
        "window_function": WINDOWS[int(rng.integers(len(WINDOWS)))],
        "use_log": bool(rng.random() < 0.5),
        "use_power": bool(rng.random() < 0.5),
        "kaldi_shift": bool(rng.random() < (0.4 if style == "centered" else 0.25)),
    }
    _defaults(rng, cfg)
    return cfg


def _defaults(rng, cfg):
    """leave the window and / or the frame style to their documented defaults now and then (the default window
    follows the resolved frame style, the default style follows the bank's phase)"""
    r = rng.random()
    if r < 0.2:
        del cfg["window_function"]
    if 0.1 <= r < 0.3:
        del cfg["frame_style"]


def si_cfg(rng, bank=None, fs=None):
    bank = bank or bank_cfg(rng, rate=int(rng.choice([1000, 2000, 4000])), kinds=("tri", "fbank", "gabor", "gammatone"), max_filts=3)
    rate = bank["sampling_rate"]
    if fs is None:
        fs = int(rng.choice([1, 2, 3, 4, 5, 7, 8]))
    cfg = {
        "name": "si", "bank": bank,
        "frame_shift_ms": ms_for(fs, rate),
        "frame_style": str(rng.choice(["causal", "centered"])),
        "include_energy": bool(rng.random() < 0.4),
        "pad_to_nearest_power_of_two": bool(rng.random() < 0.5),
        "window_function": WINDOWS[int(rng.integers(len(WINDOWS)))],
        "use_log": bool(rng.random() < 0.5),
        "use_power": bool(rng.random() < 0.5),
    }
    _defaults(rng, cfg)
    return cfg


def build(cfg):
    from pydrobert.speech.alias import alias_factory_subclass_from_arg
    from pydrobert.speech.compute import FrameComputer
    from . import userbank  # noqa: F401  (registers the user-defined bank's alias)

    import copy

    return alias_factory_subclass_from_arg(FrameComputer, copy.deepcopy(cfg))


# the constructors' parameters in the order the documentation gives them, with the documented defaults (written down here, not
# read from the classes: a call that passes its arguments by position means them in this order)
DOCUMENTED_ORDER = {
    "stft": [("frame_length_ms", None), ("frame_shift_ms", 10), ("frame_style", None), ("include_energy", False), ("pad_to_nearest_power_of_two", True),
             ("window_function", None), ("use_log", True), ("use_power", False), ("kaldi_shift", False)],
    "si": [("frame_shift_ms", 10), ("frame_style", None), ("include_energy", False), ("pad_to_nearest_power_of_two", True), ("window_function", None),
           ("use_power", False), ("use_log", True)],
}


def build_positional(cfg):
    """the same computer built by calling the class with every argument given by position, in the documented order"""
    from pydrobert.speech import compute as C
    from . import userbank  # noqa: F401

    import copy

    cfg = copy.deepcopy(cfg)
    name = cfg.pop("name")
    cls = {"stft": C.ShortTimeFourierTransformFrameComputer, "si": C.ShortIntegrationFrameComputer}[name]
    args = [cfg.pop("bank")] + [cfg.pop(k, dflt) for k, dflt in DOCUMENTED_ORDER[name]]
    assert not cfg, cfg
    return cls(*args)


def build_bank(cfg):
    from pydrobert.speech.alias import alias_factory_subclass_from_arg
    from pydrobert.speech.filters import LinearFilterBank
    from . import userbank  # noqa: F401

    import copy

    cfg = copy.deepcopy(cfg)
    kinds = cfg.pop("_kinds", None) or {}
    conv = {"int": int, "float": float, "np.int64": np.int64, "np.int32": np.int32, "np.int16": np.int16, "np.uint16": np.uint16, "np.float32": np.float32, "np.float64": np.float64, "np.bool_": np.bool_}
    for k, t in kinds.items():
        if cfg.get(k) is not None:
            cfg[k] = conv[t](cfg[k])
    return alias_factory_subclass_from_arg(LinearFilterBank, cfg)


SIGNAL_KINDS = ["noise", "noise", "noise_small", "noise_big", "zeros", "const", "impulse_first", "impulse_last", "alternating", "sine", "ramp"]


def signal(rng, N, kind=None, dtype=np.float64, views=False):
    """views=True: now and then the samples are handed over as a non-contiguous view (every other element of a
    longer array, one channel of an interleaved recording, a reversed array read backwards)"""
    if views and rng.random() < 0.15:
        x = signal(rng, N, kind, dtype)
        lay = int(rng.integers(3))
        if lay == 0:
            big = np.full(2 * N, 7, dtype=x.dtype)
            v = big[::2]
        elif lay == 1:
            big = np.full((N, 3), 7, dtype=x.dtype)
            v = big[:, 1]
        else:
            big = np.empty(N, dtype=x.dtype)
            v = big[::-1]
        v[...] = x
        return v
    kind = kind or str(rng.choice(SIGNAL_KINDS))
    if kind == "noise":
        x = rng.standard_normal(N)
    elif kind == "noise_small":
        x = rng.standard_normal(N) * 1e-6
    elif kind == "noise_big":
        x = rng.standard_normal(N) * 3e4
    elif kind in ("loud_then_quiet", "quiet_then_loud"):
        g = np.where(np.arange(N) < N // 2, 1e3, 1e-3)
        x = rng.standard_normal(N) * (g if kind == "loud_then_quiet" else g[::-1])
    elif kind == "click":
        x = rng.standard_normal(N) * 1e-2
        x[: min(N, 2)] = [3e4, -3e4][: min(N, 2)]
    elif kind == "zeros":
        x = np.zeros(N)
    elif kind == "const":
        x = np.full(N, float(rng.uniform(-2, 2)))
    elif kind == "impulse_first":
        x = np.zeros(N)
        if N:
            x[0] = 1.0
    elif kind == "impulse_last":
        x = np.zeros(N)
        if N:
            x[-1] = -2.0
    elif kind == "alternating":
        x = np.where(np.arange(N) % 2 == 0, 1.0, -1.0)
    elif kind == "sine":
        x = np.sin(np.arange(N) * float(rng.uniform(0.05, 3.0)) + float(rng.uniform(0, 6)))
    else:
        x = np.arange(N, dtype=float) / max(N, 1) - 0.3
    return np.asarray(x, dtype=dtype)


def composition(rng, N, style=None):
    """a list of chunk lengths summing to N (zeros allowed)"""
    style = style or str(rng.choice(["random", "ones", "one_big", "few", "with_empty"]))
    if N == 0:
        return [0] * int(rng.integers(0, 3))
    if style == "ones":
        parts = [1] * N
    elif style == "one_big":
        parts = [N]
    elif style == "few":
        cuts = sorted(set(int(c) for c in rng.integers(1, N, size=int(rng.integers(1, 4))))) if N > 1 else []
        parts = list(np.diff([0] + cuts + [N]))
    else:
        parts = []
        left = N
        while left:
            k = int(min(left, rng.choice([1, 1, 2, 3, int(rng.integers(1, left + 1))])))
            parts.append(k)
            left -= k
    parts = [int(p) for p in parts]
    if style == "with_empty" or rng.random() < 0.2:
        for _ in range(int(rng.integers(1, 4))):
            parts.insert(int(rng.integers(0, len(parts) + 1)), 0)
    return parts


def all_compositions(N):
    """every composition of N into positive parts (2^(N-1) of them), as lists"""
    if N == 0:
        yield []
        return
    for mask in range(1 << (N - 1)):
        parts, run = [], 1
        for i in range(N - 1):
            if mask >> i & 1:
                parts.append(run)
                run = 1
            else:
                run += 1
        parts.append(run)
        yield parts


def realistic_cfgs():
    """a few configurations of the size people actually use (the random generators keep frames tiny for speed)"""
    fb = {"name": "fbank", "num_filts": 40, "low_hz": 20, "high_hz": 8000, "sampling_rate": 16000, "analytic": False}
    gb = {"name": "gabor", "scaling_function": "mel", "num_filts": 40, "sampling_rate": 16000}
    gt = {"name": "gammatone", "scaling_function": "bark", "num_filts": 24, "sampling_rate": 8000, "low_hz": 50.0, "high_hz": 3800.0}
    return [
        {"name": "stft", "bank": fb, "frame_length_ms": 25, "frame_shift_ms": 10, "frame_style": "centered", "include_energy": False, "pad_to_nearest_power_of_two": True,
         "window_function": "hanning", "use_log": True, "use_power": True, "kaldi_shift": True},
        {"name": "stft", "bank": gb, "frame_shift_ms": 10, "frame_style": "causal", "include_energy": True, "use_log": True, "use_power": False},
        {"name": "stft", "bank": gt, "frame_length_ms": 20, "frame_shift_ms": 10, "include_energy": True, "pad_to_nearest_power_of_two": False, "use_log": False, "use_power": True},
        {"name": "stft", "bank": dict(fb, analytic=True), "frame_length_ms": 25.0625, "frame_shift_ms": 10.0625, "frame_style": "causal", "pad_to_nearest_power_of_two": False,
         "window_function": "hamming", "use_log": True, "use_power": False},
        {"name": "si", "bank": gb, "frame_shift_ms": 10, "frame_style": "centered", "include_energy": True, "use_log": True, "use_power": False},
        {"name": "si", "bank": gt, "frame_shift_ms": 5, "frame_style": "causal", "use_log": True, "use_power": True},
    ]
