"""Monitor layer: replace attributes on the real classes / modules of the code under test.

`attach(owner, name, post=..., pre=...)` wraps `owner.name` so that *every* caller — our
workload drivers, the command-line tools, the repository's own tests — goes through the
monitor.  `post(ctx)` receives a Call object (args, kwargs, result or exception, and
whatever `pre` stored in `ctx.state`) and runs the oracle.  Monitors never raise into
the code under test and never alter results.

Every wrapper counts its evaluations; a deciding monitor with zero evaluations makes the
run inconclusive (references bound before attachment bypass the wrapper).
"""
import contextlib
import functools

import numpy as np
import warnings
import sys
import traceback
from collections import Counter

_ATTACHED = []  # (owner, name, original)
EVALS = Counter()
MONITOR_ERRORS = []  # exceptions raised inside monitor code (harness faults)
_DEPTH = {"n": 0}


class Call:
    __slots__ = ("op", "self", "args", "kwargs", "result", "exc", "state")

    def __init__(self, op, self_, args, kwargs):
        self.op, self.self, self.args, self.kwargs = op, self_, args, kwargs
        self.result = None
        self.exc = None
        self.state = None


def _harness_fault(op, where):
    MONITOR_ERRORS.append((op, where, traceback.format_exc()))


STRICT = {"n": 0}


@contextlib.contextmanager
def strict_settings():
    """Process-wide settings a user may legitimately choose, for the duration of some library calls: floating-point
    division by zero / invalid operations raise (np.errstate) and UserWarnings are errors.  The monitors' own hooks and
    oracles run under ordinary settings (see _harness_env)."""
    STRICT["n"] += 1
    try:
        with np.errstate(divide="raise", invalid="raise"), warnings.catch_warnings():
            warnings.simplefilter("error", UserWarning)
            yield
    finally:
        STRICT["n"] -= 1


@contextlib.contextmanager
def _harness_env():
    if not STRICT["n"]:
        yield
        return
    with np.errstate(divide="warn", over="warn", under="ignore", invalid="warn"), warnings.catch_warnings():
        warnings.simplefilter("ignore")
        yield


AMBIENT = {"every": 4, "checked": Counter(), "skipped_warned": Counter(), "skipped_raised": Counter()}


def _same(a, b):
    if isinstance(a, (tuple, list)) and isinstance(b, (tuple, list)):
        return len(a) == len(b) and all(_same(x, y) for x, y in zip(a, b))
    try:
        import torch

        if isinstance(a, torch.Tensor) or isinstance(b, torch.Tensor):
            return isinstance(a, torch.Tensor) and isinstance(b, torch.Tensor) and a.shape == b.shape and a.dtype == b.dtype and bool(torch.equal(a, b))
    except ImportError:
        pass
    try:
        a_, b_ = np.asarray(a), np.asarray(b)
        if a_.dtype == object or b_.dtype == object:
            return True  # not comparable here: not judged
        return a_.shape == b_.shape and a_.dtype == b_.dtype and bool(np.array_equal(a_, b_, equal_nan=True))
    except Exception:
        return True


def _ambient_check(opname, func, args, kwargs, report):
    """A stateless operation under process-wide settings the library does not own.  The call is made twice more: once under the
    default settings with every warning recorded that an interpreter started without -W would show, once in a program that turns warnings into errors and has NumPy raise on division
    by zero, overflow and invalid operations.  If the first neither fails nor warns (the floating-point warnings of NumPy
    included), the second must return the same thing: code whose result or success depends on those settings has to be hiding
    warnings or errors of its own."""
    try:
        with np.errstate(divide="warn", over="warn", under="ignore", invalid="warn"), warnings.catch_warnings(record=True) as wl:
            # (the filters of an interpreter started without -W: everything is shown but the categories hidden by default)
            warnings.simplefilter("always")
            for cat in (DeprecationWarning, PendingDeprecationWarning, ImportWarning, ResourceWarning):
                warnings.simplefilter("ignore", cat)
            ra = func(*args, **kwargs)
    except Exception:
        AMBIENT["skipped_raised"][opname] += 1
        return
    if wl:
        AMBIENT["skipped_warned"][opname] += 1
        return
    AMBIENT["checked"][opname] += 1
    try:
        with np.errstate(divide="raise", over="raise", under="ignore", invalid="raise"), warnings.catch_warnings():
            warnings.simplefilter("error")
            rb = func(*args, **kwargs)
    except Exception as e:
        report("%s raised %r in a program whose warnings are errors and whose NumPy raises on division by zero / overflow / invalid operations, "
               "although the same call neither warns nor fails under the default settings" % (opname, e), check="ambient_settings", op=opname)
        return
    if not _same(ra, rb):
        report("%s returns something else in a program whose warnings are errors and whose NumPy raises on floating-point errors, although the "
               "same call neither warns nor fails under the default settings" % opname, check="ambient_settings", op=opname)


def attach(owner, name, post=None, pre=None, op=None, is_method=True, reentrant=False, ambient=None, ambient_ok=None):
    """Wrap owner.name.  is_method: first positional argument is `self`.

    ambient=report(what, **kw): the operation is stateless and does not consume or change its arguments; every AMBIENT["every"]-th
    successful call (for which ambient_ok(call), if given, is true) is repeated under other process-wide settings (_ambient_check).

    reentrant=False: nested calls made *by the monitor's own oracle* (it may call the
    same API on twins) are not monitored again."""
    orig = owner.__dict__[name] if isinstance(owner, type) else getattr(owner, name)
    kind = None
    func = orig
    if isinstance(orig, staticmethod):
        kind, func = staticmethod, orig.__func__
    elif isinstance(orig, classmethod):
        kind, func = classmethod, orig.__func__
    elif isinstance(orig, property):
        raise TypeError("use attach_property")
    opname = op or (getattr(owner, "__name__", str(owner)) + "." + name)

    @functools.wraps(func)
    def wrapper(*args, **kwargs):
        if _DEPTH["n"] and not reentrant:
            return func(*args, **kwargs)
        if is_method and kind is None and args:
            c = Call(opname, args[0], args[1:], kwargs)
        else:
            c = Call(opname, None, args, kwargs)
        if pre is not None:
            _DEPTH["n"] += 1
            try:
                with _harness_env():
                    c.state = pre(c)
            except Exception:
                _harness_fault(opname, "pre")
            finally:
                _DEPTH["n"] -= 1
        try:
            c.result = func(*args, **kwargs)
        except BaseException as e:  # noqa
            c.exc = e
        EVALS[opname] += 1
        if post is not None:
            _DEPTH["n"] += 1
            try:
                with _harness_env():
                    post(c)
            except Exception:
                _harness_fault(opname, "post")
            finally:
                _DEPTH["n"] -= 1
        if ambient is not None and c.exc is None and EVALS[opname] % AMBIENT["every"] == 0:
            _DEPTH["n"] += 1
            try:
                if ambient_ok is None or ambient_ok(c):
                    _ambient_check(opname, func, args, kwargs, ambient)
            except Exception:
                _harness_fault(opname, "ambient")
            finally:
                _DEPTH["n"] -= 1
        if c.exc is not None:
            raise c.exc
        return c.result

    wrapper.__vf_original__ = orig
    new = wrapper if kind is None else kind(wrapper)
    setattr(owner, name, new)
    _ATTACHED.append((owner, name, orig))
    return wrapper


def not_in_place(c):
    """the call did not ask for its input to be overwritten (third positional argument or keyword of the apply methods)"""
    ip = c.kwargs.get("in_place", c.args[2] if len(c.args) > 2 else False)
    try:
        return not bool(ip)
    except Exception:
        return False


def named_file(c):
    """the first argument names a file (an open stream is consumed by the first call)"""
    a = c.args[0] if c.args else c.kwargs.get("rfilename")
    return isinstance(a, str) and not a.endswith("|")


class quiet:
    """Context manager: calls made inside are not monitored (used by oracles/twins)."""

    def __enter__(self):
        _DEPTH["n"] += 1

    def __exit__(self, *a):
        _DEPTH["n"] -= 1


def detach_all():
    while _ATTACHED:
        owner, name, orig = _ATTACHED.pop()
        setattr(owner, name, orig)


def report(rec, required=()):
    """Copy evaluation counters into the recorder; flag unreached deciding monitors."""
    for k, v in EVALS.items():
        rec.count("monitor_evals:" + k, v)
    for name in ("checked", "skipped_warned", "skipped_raised"):
        for k, v in AMBIENT[name].items():
            rec.count("ambient_settings_%s:%s" % (name, k), v)
        AMBIENT[name].clear()
    for op, where, tb in MONITOR_ERRORS[:5]:
        rec.inconc("harness fault in monitor %s (%s): %s" % (op, where, tb.strip().splitlines()[-1]))
        rec.note(tb)
    for k in required:
        if EVALS[k] == 0:
            rec.inconc("deciding monitor %s was never reached" % k)


def require(rec, names):
    """Parent side: every deciding monitor must have been evaluated in some shard."""
    for k in names:
        if not rec.counters.get("monitor_evals:" + k):
            rec.inconc("deciding monitor %s was never reached" % k)


# ---------------------------------------------------------------- constructor-argument capture
import inspect as _inspect
import weakref as _weakref

_CTOR = _weakref.WeakKeyDictionary()


def capture_init(cls):
    """remember, per instance, the arguments its constructor was called with (public configuration),
    so that oracles need not read private attributes"""
    sig = _inspect.signature(cls.__init__)

    def post(c):
        if c.exc is not None:
            return
        try:
            ba = sig.bind(c.self, *c.args, **c.kwargs)
            ba.apply_defaults()
            a = dict(ba.arguments)
            a.pop("self", None)
            _CTOR[c.self] = a
        except TypeError:
            pass

    attach(cls, "__init__", post=post, reentrant=True, op=cls.__name__ + ".__init__[capture]")


def ctor_args(obj):
    return _CTOR.get(obj)


def adopt(copy_, original):
    """a copy of an object (copy.deepcopy, pickle round trip, copy.copy) has the public configuration the original was built with"""
    if original in _CTOR:
        _CTOR[copy_] = _CTOR[original]
    return copy_
