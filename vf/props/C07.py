"""C07 - impulse and frequency responses agree, within the advertised supports.

Monitor: post-hook on get_impulse_response of the four bank classes.  When the call is
inside the statement's scope (bank family, buffer long enough to resolve the filter in both
domains) the monitor asks the same bank for get_frequency_response at the same width and
checks: inverse DFT vs impulse response, realness, magnitudes outside `supports` and
outside `supports_hz`, and the sign structure of the supports.
"""
import numpy as np

from .. import filtgen, gen, monitor
from ..common import rng_for, split

LEVEL = "exploration"
TECHNIQUE = "runtime monitor on get_impulse_response: inverse-DFT oracle against get_frequency_response and out-of-support magnitude bounds at widths from the statement's minimum upward; ambient-settings monitor (stateless calls repeated under -W error and np.errstate raise)"
RULE = (
    "triples (bank, filter, width): triangular / Fbank / Gabor banks with every flag and gammatone banks of order 3-8 without L2 scaling (max_centered "
    "and erb free), first/last/random filter, widths W0, W0+1 and a random width in (W0, 4 W0] with W0 = max(temporal support, ceil(2 rate / bandwidth)) "
    "(skipped above 6000 samples); non-trivial = a triple with a non-empty out-of-support region in both domains; distinct by (bank configuration, filter, width)"
)
ASSUMPTIONS = [
    "bounds exactly as stated: |ifft(H) - h| <= 2T, |h| outside supports <= 2T, |H| outside supports_hz <= 2.5T (T = EFFECTIVE_SUPPORT_THRESHOLD); no extra slack",
    "supports are inclusive sample ranges [left, right] taken modulo the buffer; supports_hz taken modulo the sampling rate and mirrored for real banks",
]
ANCHOR_FILES = ("src/pydrobert/speech/filters.py", "src/pydrobert/speech/config.py")
EXHAUSTIVE_PARTS = []
SUITE_TESTS = ['tests/test_filters.py', 'tests/test_compute.py']  # the repository's own tests as an extra monitored workload (thorough tier)
LEVEL_TEXT = (
    "Every in-scope get_impulse_response call of the workload (8e3 quick / 2.5e5 thorough triples at the statement's minimum width, one above it and a "
    "random larger one) is checked against the inverse DFT of the bank's own frequency response and against the advertised supports with the stated bounds. "
    "Sampled exploration; the worst observed ratio to the bound is reported per bank family."
)
LEVEL_NOTE = "Trusts np.fft.ifft; the bounds have little slack on the unchanged tree (worst ratios are recorded in the evidence)."


def in_scope_bank(bank):
    from pydrobert.speech import filters as F

    name = type(bank).__name__
    if name in ("TriangularOverlappingFilterBank", "Fbank", "GaborFilterBank") or (isinstance(bank, F.Fbank) and type(bank).__module__.startswith("vf.")):
        return True  # (the library's zero-phase banks, and a user's subclass of one of them - vf/userbank.py)
    if name == "ComplexGammatoneFilterBank":
        return bank.order >= 3 and not bank.scaled_l2_norm
    return False


def min_width(bank, i):
    l, r = bank.supports[i]
    lh, rh = bank.supports_hz[i]
    return max(int(r - l), int(np.ceil(2 * bank.sampling_rate / (rh - lh))))


class Mon:
    def __init__(self, rec):
        self.rec = rec
        self.case = None
        self.cfg_of = {}
        self.worst = {}

    def attach(self):
        from pydrobert.speech import filters as F

        for cls in (F.TriangularOverlappingFilterBank, F.Fbank, F.GaborFilterBank, F.ComplexGammatoneFilterBank):
            monitor.attach(cls, "get_impulse_response", post=self.post, ambient=self.v)

    def v(self, what, **kw):
        self.rec.violation(dict(what=what, case=self.case, **kw))

    def upd(self, key, val):
        if val > self.worst.get(key, 0.0):
            self.worst[key] = float(val)

    def post(self, c):
        from pydrobert.speech import config

        bank = c.self
        kw = dict(zip(("filt_idx", "width"), c.args))
        kw.update(c.kwargs)
        i, W = kw.get("filt_idx"), kw.get("width")
        if not in_scope_bank(bank) or not isinstance(W, (int, np.integer)) or not (0 <= i < bank.num_filts):
            self.rec.count("out_of_scope_calls")
            return
        W = int(W)
        sup = bank.supports[i]
        suph = bank.supports_hz[i]
        if not (np.all(np.isfinite(sup)) and np.all(np.isfinite(suph))) or suph[1] <= suph[0]:
            self.rec.count("out_of_scope_calls")
            return
        if W < max(min_width(bank, i), 2):
            self.rec.count("out_of_scope_short_buffer")
            return
        name = type(bank).__name__
        cfg = self.cfg_of.get(id(bank))
        maxc = bool(cfg.get("max_centered")) if cfg else bool(name.startswith("ComplexG") and getattr(bank, "_offsets", (0,))[0] != 0)
        fam = name + ("_l2" if getattr(bank, "scaled_l2_norm", False) else "") + ("_maxc" if maxc else "")
        T = config.EFFECTIVE_SUPPORT_THRESHOLD
        rate = bank.sampling_rate
        self.rec.ev()
        self.rec.count("calls_" + name)
        info = dict(cls=name, filt=int(i), W=W, cfg=self.cfg_of.get(id(bank)), supports=list(sup), supports_hz=list(suph),
                    periods_spanned=float((suph[1] - suph[0]) / rate), threshold=float(T))
        if c.exc is not None:
            self.v("%s.get_impulse_response(%d, %d) raised %r" % (name, i, W, c.exc), check="raise", **info)
            return
        h = np.asarray(c.result)
        if h.shape != (W,) or not np.all(np.isfinite(h)):
            self.v("%s impulse response has shape %r / non-finite values for width %d" % (name, h.shape, W), check="shape", **info)
            return
        with monitor.quiet():
            H = np.asarray(bank.get_frequency_response(i, W))
        if H.shape != (W,) or not np.all(np.isfinite(H)):
            self.v("%s frequency response has shape %r / non-finite values for width %d" % (name, H.shape, W), check="shape", **info)
            return
        d = float(np.abs(np.fft.ifft(H) - h).max())
        self.upd((fam, "ifft/2T"), d / (2 * T))
        if d > 2 * T:
            self.v("%s filter %d width %d: |ifft(H) - h| = %.3g T (bound 2 T)" % (name, i, W, d / T), check="ifft", ratio=d / T, **info)
        is_real_h = (not np.iscomplexobj(h)) or float(np.abs(h.imag).max()) == 0.0
        if bool(bank.is_real) != is_real_h:
            self.v("%s is_real=%r but the impulse response is %s" % (name, bank.is_real, "real" if is_real_h else "complex"), check="realness", **info)
        l, r = int(sup[0]), int(sup[1])
        mask = np.ones(W, bool)
        mask[np.arange(l, r + 1) % W] = False
        out_t = float(np.abs(h[mask]).max(initial=0))
        self.upd((fam, "out_t/2T"), out_t / (2 * T))
        if out_t > 2 * T:
            k = int(np.argmax(np.where(mask, np.abs(h), 0)))
            self.v("%s filter %d width %d: |h[%d]| = %.3g T outside supports %r (bound 2 T)" % (name, i, W, k, out_t / T, (l, r)), check="out_time", ratio=out_t / T, **info)
        f = np.arange(W) * rate / W
        inside = np.zeros(W, bool)
        for p in range(-3, 4):
            inside |= (f + p * rate >= suph[0]) & (f + p * rate <= suph[1])
            if bank.is_real:
                inside |= (-(f + p * rate) >= suph[0]) & (-(f + p * rate) <= suph[1])
        out_f = float(np.abs(H[~inside]).max(initial=0))
        self.upd((fam, "out_f/2.5T"), out_f / (2.5 * T))
        if out_f > 2.5 * T:
            k = int(np.argmax(np.where(~inside, np.abs(H), 0)))
            self.v("%s filter %d width %d: |H| = %.3g T at %.2f Hz outside supports_hz %r (bound 2.5 T)" % (name, i, W, out_f / T, f[k], tuple(suph)), check="out_freq", ratio=out_f / T, **info)
        if bank.is_zero_phase:
            # (0, 0) is the empty support of a filter that never reaches the threshold in time
            if not (l < 0 < r or (l == 0 == r)):
                self.v("zero-phase %s filter %d: supports %r do not straddle sample 0" % (name, i, (l, r)), check="support_sign", **info)
        elif name.startswith("ComplexG") and not maxc and l != 0:
            self.v("causal gammatone filter %d: supports %r do not start at sample 0" % (i, (l, r)), check="support_sign", **info)
        if mask.any() and (~inside).any():
            self.rec.nt((repr(self.cfg_of.get(id(bank)) or id(bank)), int(i), W))
        self.rec.count("family_" + fam)


def _run_case(case, rec, mon=None):
    own = mon is None
    if own:
        monitor.detach_all()
        mon = Mon(rec)
        mon.attach()
    mon.case = case
    rng = rng_for(case["seed"], "C07", case["idx"], 1)
    cfg = case["cfg"]
    try:
        bank = gen.build_bank(cfg)
    except Exception:
        rec.count("bank_construction_raised")
        bank = None
    if bank is not None and case["idx"] % 7 == 5:
        from ..common import copied, COPY_WAYS

        way = COPY_WAYS[(case["idx"] // 7) % 3]
        try:
            bank = copied(bank, way)  # the bank as a worker process / a copied computer sees it
            rec.count("banks_asked_through_a_%s" % way)
        except Exception as e:
            mon.v("copying (%s) a %s bank raised %r" % (way, cfg["name"], e), check="copy_raise", cfg=cfg)
            bank = None
    if bank is not None and case["idx"] % 3 == 0:
        from ..common import poke

        poke(bank)

        from ..common import scribble


        if case["idx"] % 3 == 0:

            scribble(bank)  # ... and overwrites the arrays the properties handed out (centres in kHz, say)

            rec.count("banks_whose_property_values_were_overwritten_by_the_caller")
        rec.count("banks_inspected_before_the_first_request")
    if bank is not None:
        mon.cfg_of[id(bank)] = cfg
        nf = bank.num_filts
        used = []
        for i in sorted({0, nf - 1, int(rng.integers(nf))}):
            sup, suph = bank.supports[i], bank.supports_hz[i]
            if not (np.all(np.isfinite(sup)) and np.all(np.isfinite(suph))):
                continue
            base = min_width(bank, i)
            if base > 6000 or base < 2:
                rec.count("filters_skipped_width_over_6000")
                continue
            for W in sorted({base, base + 1, int(base * rng.uniform(1, 4))}):
                if cfg["name"] in ("gabor", "gammatone") and W > 4000:
                    continue
                used.append((i, W))
                try:
                    if (i + W) % 5 == 1:
                        with monitor.strict_settings():  # settings a user may choose: FP division by zero raises, UserWarnings are errors
                            bank.get_impulse_response(i, W)
                        rec.count("calls_under_strict_process_settings")
                    elif (i + W) % 3 == 0:
                        bank.get_impulse_response(filt_idx=i, width=W)
                    else:
                        bank.get_impulse_response(i, W)
                except Exception:
                    pass
        rec.sample({"cfg": cfg, "filter_width_pairs": used})
    if len(mon.cfg_of) > 200:
        mon.cfg_of.clear()
    if own:
        monitor.report(rec)
        monitor.detach_all()


def run_case(case, rec, mon=None):
    """the threshold is a configuration value: a share of the cases runs with it changed after import"""
    from ..common import support_threshold

    thr = case.get("threshold")
    if thr is not None:
        rec.count("cases_with_threshold_" + repr(thr))
    with support_threshold(thr):
        _run_case(case, rec, mon)


def plan(tier, seed):
    n = 900 if tier == "quick" else 28000
    return [{"a": a, "b": b, "seed": seed} for a, b in split(n, 16)]


def run_shard(spec, rec):
    if "suite" in spec:
        from .. import suite

        return suite.run(__name__.rsplit(".", 1)[-1], spec, rec)
    mon = Mon(rec)
    mon.attach()
    for i in range(spec["a"], spec["b"]):
        rng = rng_for(spec["seed"], "C07", i, 0)
        cfg = filtgen.bank_cfg(rng, gammatone_scope_c07=True)
        run_case({"idx": i, "seed": spec["seed"], "cfg": cfg, "threshold": [None, None, None, 5e-5, 2e-3][i % 5]}, rec, mon)
        if i % 10 == 2:
            # the same layout again in this process, as new bank objects under other thresholds (lower, then higher)
            for thr in (5e-5, 2e-3, 1e-6, 1e-8):
                run_case({"idx": i, "seed": spec["seed"], "cfg": cfg, "threshold": thr}, rec, mon)
            rec.count("layouts_rebuilt_under_other_thresholds")
        if i % 20 == 11:
            # a user's subclass of Fbank that overrides the frequency-domain methods (vf/userbank.py): the inherited impulse response is
            # the inverse DFT of *its* frequency response
            ucfg = {"name": "vfgainfbank", "num_filts": int(rng.integers(2, 12)), "sampling_rate": int(rng.choice([8000, 16000])), "low_hz": 20.0, "high_hz": None,
                    "analytic": bool(i % 40 == 11)}
            run_case({"idx": i, "seed": spec["seed"], "cfg": ucfg, "threshold": None}, rec, mon)
            rec.count("user_subclass_of_fbank_probed")
        if i % 10 == 7 and cfg["name"] == "gammatone":
            # the same layout again, as the bank's causal / centred counterpart (and back): two banks that differ in one flag only
            for flip in (True, False):
                run_case({"idx": i, "seed": spec["seed"], "cfg": dict(cfg, max_centered=(not cfg["max_centered"]) if flip else cfg["max_centered"]), "threshold": None}, rec, mon)
            rec.count("gammatone_layouts_rebuilt_with_max_centered_flipped")
    rec.extra["worst_ratio_to_bound"] = {"%s %s" % k: round(v, 4) for k, v in sorted(mon.worst.items())}
    monitor.report(rec)
    monitor.detach_all()


def finish(rec):
    monitor.require(rec, [c + ".get_impulse_response" for c in ("TriangularOverlappingFilterBank", "Fbank", "GaborFilterBank", "ComplexGammatoneFilterBank")])
    for k in ("family_TriangularOverlappingFilterBank", "family_Fbank", "family_GaborFilterBank", "family_GaborFilterBank_l2", "family_ComplexGammatoneFilterBank",
              "family_ComplexGammatoneFilterBank_maxc"):
        if not rec.counters[k]:
            rec.inconc("bank family %s never observed in scope" % k)


def classify(w):
    """a gammatone filter so wide that its effective frequency support (response above the threshold) spans several periods
    of the sampling rate: the periodised response is summed over exactly those periods, and the tails of the infinitely many
    left out, each below the threshold, add up to slightly more than one threshold per side"""
    if w.get("check") == "ifft" and w.get("cls") == "ComplexGammatoneFilterBank" and w.get("periods_spanned", 0) >= 6:
        # what the neglected tails can add up to: each side's first left-out period is below one threshold and the following ones fall
        # off as (1 + k / (P / 2)) ** -order, P the number of periods spanned: 2 T (1 + (P / 2) / (order - 1)) in all.  Anything larger
        # is not this finding.  (Without the configuration at hand only the mildest form, up to 2.5 T, is recognised.)
        order = (w.get("cfg") or {}).get("order")
        bound = 2.5 if not order or order < 2 else max(2.5, 2.0 + w["periods_spanned"] / (order - 1))
        if w.get("ratio", 1e9) <= bound:
            return "gammatone-many-period-tails-exceed-2T"
    return None
