"""C03 - short-integration coefficients equal their documented definition.

Monitor: post-hook on ShortIntegrationFrameComputer.compute_full; oracle =
vf/oracle/si_ref.py (np.convolve with the clamped impulse responses at the buffer width the
computer was observed to request from its bank, explicit windowed integration).
"""
import numpy as np

from .. import sanit, compmon, gen, monitor
from ..common import rng_for, split
from ..oracle import si_ref as R
from ..oracle.stft_ref import compare_features

OPTIMIZED_SHARDS = 1  # shards run once more in an interpreter started with -O (vf/run.py)
LEVEL = "exploration"
TECHNIQUE = "runtime monitor on SI compute_full with an np.convolve reference model (buffer width observed through a construction spy); float dtype sweep; write sanitizer"
RULE = (
    "cases: seeded SI configurations in the statement's scope (4 bank types incl. max_centered gammatone and analytic banks, rates 1-4 kHz, frame "
    "shifts 1-8 samples, both styles, padded/unpadded, 6 windows, log/power/energy) x signal lengths {0,1,fs-1,fs,fs+1,frame_length+-1, 1-3 DFT blocks "
    "+-1} x dtypes float16/32/64/longdouble x signal kinds; non-trivial = >= 2 frames and N >= one DFT block; distinct by (configuration, N, dtype, kind)"
)
ASSUMPTIONS = [
    "scope = narrower reading of 'one-sided support': causal fs < min(max right_i, right of the widest filter); centered fs < max(right_i-left_i)//2",
    "alignment constants of the documented conventions are pinned (see vf/oracle/si_ref.py)",
    "tolerance (linear domain): float64/longdouble 1e-7 rel + 1e-10 S; float32 1e-4 / 1e-6; float16 2e-2 / 2e-3 (result dtype and shape are always strict); plus the rounding floor of an FFT convolution (256 eps max|x| sum|h| per sample) and two quanta of a float16/float32 result",
]
ANCHOR_FILES = ("src/pydrobert/speech/compute.py",)
EXHAUSTIVE_PARTS = []
SUITE_TESTS = ['tests/test_compute.py', 'tests/test_torch.py']  # the repository's own tests as an extra monitored workload (thorough tier)
LEVEL_TEXT = (
    "Every in-scope SI compute_full call of the workload (~5e3 quick / ~6e4 thorough) is compared with an independent convolution-based reference, "
    "for all four float dtypes and lengths straddling 1-3 overlap-save blocks. Sampled exploration."
)
LEVEL_NOTE = "Trusts np.convolve and the bank's get_impulse_response values (C07 ties those to the frequency responses)."


class SiMonitor:
    def __init__(self, rec):
        import weakref

        self.rec = rec
        self.case = None
        self._started_before = False
        self._in_full = {}  # id(computer) -> depth of compute_full calls in progress
        self._client_started = weakref.WeakKeyDictionary()  # utterances the *client* opened with compute_chunk (a model, not the object's flag)

    def attach(self):
        from pydrobert.speech import compute as C

        compmon.attach()
        monitor.attach(C.ShortIntegrationFrameComputer, "compute_full", pre=self.pre, post=self.post)
        monitor.attach(C.ShortIntegrationFrameComputer, "compute_chunk", post=self.post_chunk)
        monitor.attach(C.ShortIntegrationFrameComputer, "finalize", post=self.post_finalize)

    def post_chunk(self, c):
        if not self._in_full.get(id(c.self)) and c.exc is None:
            self._client_started[c.self] = True

    def post_finalize(self, c):
        if not self._in_full.get(id(c.self)):
            self._client_started[c.self] = False

    def v(self, what, **kw):
        self.rec.violation(dict(what=what, case=self.case, **kw))

    def pre(self, c):
        x = c.args[0] if c.args else c.kwargs.get("signal")
        # was an utterance in progress, by the calls the client made (not by what the object says of itself)?
        self._started_before = bool(self._client_started.get(c.self, False))
        self._in_full[id(c.self)] = self._in_full.get(id(c.self), 0) + 1
        return np.array(x, copy=True)

    def post(self, c):
        from pydrobert.speech import config

        comp, x = c.self, c.state
        k = self._in_full.get(id(comp), 0) - 1
        if k > 0:
            self._in_full[id(comp)] = k
        else:
            self._in_full.pop(id(comp), None)
        inf = compmon.info(comp)
        if inf is None or inf["args"] is None or x is None:
            self.rec.count("si_unknown_construction")
            return
        a = inf["args"]
        if x.ndim != 1 or not np.issubdtype(x.dtype, np.floating) or not np.all(np.isfinite(x)):
            self.rec.count("si_out_of_scope_input")
            return
        fs = int(comp.frame_shift)
        style = compmon.documented_style(comp, a)
        if comp.frame_style != style and not getattr(comp, "_vf_style_reported", False):
            try:
                comp._vf_style_reported = True
            except Exception:
                pass
            self.v("frame_style is %r; documented for frame_style=%r and a %s bank: %r" % (comp.frame_style, a.get("frame_style"),
                   "zero-phase" if comp.bank.is_zero_phase else "non-zero-phase", style), check="frame_style")
        if a.get("frame_style") is None:
            self.rec.count("si_default_frame_style")
        if a.get("window_function") is None:
            self.rec.count("si_default_window")
        sup = comp.bank.supports
        if fs < 1 or not R.in_scope(sup, fs, style):
            self.rec.count("si_out_of_scope_config")
            return
        if len(inf["ir_widths"]) != 1:
            self.rec.count("si_width_unobserved")
            return
        if self._started_before and isinstance(c.exc, ValueError):
            # (an utterance really was in progress before the call: the documented refusal)
            self.rec.count("si_rejected_mid_utterance")
            return
        width = inf["ir_widths"][0]
        self.rec.ev()
        self.rec.count("si_compute_full_calls")
        N = len(x)
        use_log, use_power, energy = bool(a.get("use_log")), bool(a.get("use_power")), bool(a.get("include_energy"))
        info = dict(op="si.compute_full", N=N, fs=fs, width=width, style=style, use_log=use_log, use_power=use_power, energy=energy, dtype=str(x.dtype),
                    bank=type(comp.bank).__name__, supports=[list(s) for s in sup])
        if c.exc is not None:
            self.v("SI compute_full raised %r (N=%d fs=%d width=%d %s %s)" % (c.exc, N, fs, width, style, x.dtype), check="raise", exc=type(c.exc).__name__, **info)
            return
        got = np.asarray(c.result)
        with monitor.quiet():
            window = compmon.window_for(a, style, 2 * fs)
            want = R.si_ref(x, comp.bank, width, window, fs, style, use_power, use_log, energy, config.LOG_FLOOR_VALUE)
        F = comp.bank.num_filts + int(energy)
        if got.ndim != 2 or got.shape != (want.shape[0], F):
            self.v("SI compute_full returned shape %r; documented (%d, %d) for N=%d fs=%d" % (got.shape, want.shape[0], F, N, fs), check="shape", **info)
            return
        if got.dtype != x.dtype:
            self.v("SI compute_full returned dtype %s for %s input" % (got.dtype, x.dtype), check="dtype", **info)
            return
        if x.dtype == np.float16:
            rtol, atol = 2e-2, 2e-3
        elif x.dtype == np.float32:
            # computed in float64 and cast once at the end: the float64 tolerances plus the rounding of the cast (below)
            rtol, atol = 2e-6, 1e-10
        else:
            rtol, atol = 1e-7, 1e-10
        with np.errstate(over="ignore"):
            wantc = want.astype(x.dtype).astype(np.float64) if x.dtype in (np.float16, np.float32) else want
        if not np.all(np.isfinite(wantc)):
            self.rec.count("si_overflow_in_narrow_dtype")
            return
        # rounding floor of an FFT-based convolution: delta = 256 eps |x|max sum|h| on every sample of x*h,
        # i.e. delta on a magnitude coefficient and 2 sqrt(coef) delta + delta^2 on a power coefficient;
        # plus two quanta of a narrow result dtype (float16 results live among its subnormals)
        delta = 256 * np.finfo(np.float64).eps * R.si_ref.last_yscale
        lin = np.exp(want) if use_log else want
        extra = (2 * np.sqrt(np.abs(lin)) * delta + delta ** 2) if use_power else delta
        if x.dtype in (np.float16, np.float32) and not use_log:
            with np.errstate(over="ignore"):
                extra = extra + 2 * np.spacing(np.abs(wantc).astype(x.dtype)).astype(np.float64)
        got64 = got.astype(np.float64)
        if x.dtype in (np.float16, np.float32):
            # two quanta of the stored value (in the log domain too, where no relative tolerance on exp() covers them)
            with np.errstate(all="ignore"):
                q = 2 * np.spacing(np.abs(wantc).astype(x.dtype)).astype(np.float64)
            got64 = np.where(np.abs(got64 - wantc) <= q, wantc, got64)
        ok, i, detail = compare_features(got64, wantc, use_log, config.LOG_FLOOR_VALUE, rtol, atol, 0.0, extra)
        if not ok:
            col = None if i is None else i[1]
            which = "energy" if (energy and col == 0) else "filter %s" % (None if col is None else col - int(energy))
            self.v("SI frame %s %s: %s (N=%d fs=%d width=%d %s %s %s)" % (None if i is None else i[0], which, detail, N, fs, width, style, x.dtype, info["bank"]),
                   check="value", coeff=which, **info)
        if not np.array_equal(np.asarray(c.args[0] if c.args else c.kwargs.get("signal")), x):
            self.v("SI compute_full modified its input", check="input_modified", **info)
        self.rec.count("si_dtype_" + str(x.dtype))
        self.rec.count("si_style_" + style)
        if N >= width:
            self.rec.count("si_at_least_one_dft_block")
        if want.shape[0] >= 2 and N >= width:
            self.rec.nt((repr(sorted((k, repr(v)) for k, v in a.items() if k != "bank")), repr(self.case and self.case.get("cfg", {}).get("bank")), N, str(x.dtype), float(np.sum(x[:8].astype(np.float64)))))


def make_cfg(seed, idx):
    rng = rng_for(seed, "C03", idx, 0)
    rate = int(rng.choice([1000, 2000, 4000]))
    bank = gen.bank_cfg(rng, rate=rate, max_filts=3)
    # keep temporal supports short: wide bands
    nyq = rate / 2
    if bank["high_hz"] - bank["low_hz"] < 0.5 * nyq:
        bank["low_hz"] = float(min(bank["low_hz"], 0.2 * nyq))
        bank["high_hz"] = float(max(bank["high_hz"], 0.8 * nyq))
        sc = bank.get("scaling_function")
        if isinstance(sc, dict) and sc.get("name") == "octave":
            sc["low_hz"] = float(max(1.0, min(sc["low_hz"], bank["low_hz"] if bank["low_hz"] > 0 else 1.0)))
            if bank["low_hz"] <= 0:
                bank["low_hz"] = 5.0
    cfg = gen.si_cfg(rng, bank=bank)
    if idx % 11 == 6:
        cfg["window_function"] = "vfwelch"  # a window written by a user against the documented interface (vf/userbank.py)
    return cfg


def _run_case(case, rec, mon=None):
    own = mon is None
    if own:
        monitor.detach_all()
        mon = SiMonitor(rec)
        mon.attach()
    mon.case = case
    rng = rng_for(case["seed"], "C03", case["idx"], 1)
    cfg = case["cfg"]
    try:
        comp = gen.build(cfg)
    except Exception as e:
        rec.count("configurations_not_constructible")
        rec.note("not constructible: %r %r" % (e, cfg))
        if own:
            monitor.detach_all()
        return
    if case["idx"] % 10 == 7 and isinstance(cfg, dict) and cfg.get("name") in gen.DOCUMENTED_ORDER:
        # the same configuration with every constructor argument given by position, in the documented order.  (What the arguments
        # mean is what the keyword-built computer above recorded: the monitor's record of the positional one is replaced by it.)
        try:
            c2 = gen.build_positional(cfg)
            compmon.adopt(c2, comp)
            comp = c2
            rec.count("computers_built_with_positional_arguments")
        except Exception as e:
            rec.violation(dict(what="building an SI computer with positional arguments in the documented order raised %r" % (e,), case=case, check="positional"))
    if case["idx"] % 9 == 4:
        # the computer as a worker process gets it: a deep copy or a pickle round trip - a computer of the same configuration
        from ..common import copied

        way = ("deepcopy", "pickle")[(case["idx"] // 9) % 2]
        try:
            c2 = copied(comp, way)
            compmon.adopt(c2, comp)
            comp = c2
            rec.count("computers_used_through_a_%s" % way)
        except Exception as e:
            rec.violation(dict(what="copying (%s) an SI computer raised %r" % (way, e), case=case, check="copy_raise"))
    inf = compmon.info(comp)
    width = inf["ir_widths"][0] if inf and len(inf["ir_widths"]) == 1 else None
    fs, fl = comp.frame_shift, comp.frame_length
    if width is None or (width > 1024 and not case.get("realistic")) or fs < 1:
        rec.count("configurations_skipped_size")
        if own:
            monitor.detach_all()
        return
    if not R.in_scope(comp.bank.supports, fs, comp.frame_style):
        rec.count("configurations_out_of_scope")
    L = sorted({0, 1, max(fs - 1, 0), fs, fs + 1, max(fl - 1, 0), fl, fl + 1, width - 1, width, width + 1, 2 * width - 1, 2 * width + 1, 3 * width,
                int(rng.integers(1, 3 * width + 8))})
    pick = list(rng.choice(L, size=min(case.get("n_signals", 5), len(L)), replace=False))
    for j, N in enumerate(pick):
        kind = str(rng.choice(gen.SIGNAL_KINDS))
        dt = [np.float64, np.float64, np.float32, np.float16, np.longdouble][int(rng.integers(5))]
        if dt == np.float16 and kind == "noise_big":
            kind = "noise"
        x = gen.signal(rng, int(N), kind, dt, views=True)
        if dt == np.float32 and j % 2 == 1 and N:
            # a loud low tone over noise 120 dB below it: what the quiet bands hold depends on the transform's precision
            t = np.arange(int(N))
            x = (1e4 * np.sin(0.03 * t + 0.5) + 1e-2 * rng.standard_normal(int(N))).astype(np.float32)
            rec.count("float32_signals_with_high_dynamic_range")
        x.setflags(write=False)
        if j % 4 == 1:
            # a signal of an integer type is refused (ValueError) and a refused call changes nothing
            try:
                comp.compute_full(np.arange(7, dtype=np.int16))
                rec.count("integer_signals_accepted")
            except ValueError:
                rec.count("integer_signals_refused")
        try:
            if j % 5 == 4:
                with monitor.strict_settings():  # settings a user may choose: FP division by zero raises, UserWarnings are errors
                    comp.compute_full(x)
                rec.count("calls_under_strict_process_settings")
            elif j % 3 == 2:
                comp.compute_full(signal=x)  # the same call spelled with the keyword
            else:
                comp.compute_full(x)
        except Exception:
            pass
    rec.sample({"cfg": cfg, "fs": int(fs), "frame_length": int(fl), "width": int(width), "lengths": [int(n) for n in pick]})
    if own:
        monitor.report(rec)
        monitor.detach_all()


def run_case(case, rec, mon=None):
    """LOG_FLOOR_VALUE is a configuration value the statement refers to: a share of the cases runs with it changed after import"""
    from ..common import config_value

    floor = case.get("log_floor")
    if floor is not None:
        rec.count("cases_with_log_floor_" + repr(floor))
    with config_value("LOG_FLOOR_VALUE", floor):
        _run_case(case, rec, mon)


def plan(tier, seed):
    n = 1200 if tier == "quick" else 16000
    specs = [{"a": a, "b": b, "seed": seed} for a, b in split(n, 16)]
    if tier != "quick":
        for j, cfg in enumerate(c for c in gen.realistic_cfgs() if c["name"] == "si"):
            specs.append({"realistic": cfg, "idx": 10 ** 6 + j, "seed": seed})
    return specs


def run_shard(spec, rec):
    if "suite" in spec:
        from .. import suite

        return suite.run(__name__.rsplit(".", 1)[-1], spec, rec)
    import pydrobert.speech.compute as _sut

    sanit.install([_sut])  # poison-fill sanitizer: np.empty results are pre-filled with NaN while this shard runs
    mon = SiMonitor(rec)
    mon.attach()
    if "realistic" in spec:
        rec.count("realistic_configurations")
        run_case({"idx": spec["idx"], "seed": spec["seed"], "cfg": spec["realistic"], "n_signals": 4, "realistic": True}, rec, mon)
        monitor.report(rec)
        monitor.detach_all()
        return
    for i in range(spec["a"], spec["b"]):
        run_case({"idx": i, "seed": spec["seed"], "cfg": make_cfg(spec["seed"], i), "log_floor": [None, None, None, None, 1e-3, None, 1e-9][i % 7]}, rec, mon)
    rec.count("sanitizer_np_empty_intercepted", sanit.COUNTS["empty"] + sanit.COUNTS["empty_like"])
    sanit.uninstall([_sut])
    monitor.report(rec)
    monitor.detach_all()


def finish(rec):
    monitor.require(rec, ["ShortIntegrationFrameComputer.compute_full"])
    for k in ("si_dtype_float16", "si_dtype_float32", "si_dtype_float64", "si_dtype_" + np.dtype(np.longdouble).name, "si_style_causal", "si_style_centered", "si_at_least_one_dft_block"):
        if not rec.counters[k]:
            rec.inconc("class %s never observed" % k)


def classify(w):
    return None
