"""C13 - shorten-compressed SPHERE audio decodes losslessly.

Monitor: post-hook on util.read_signal.  The driver produces shorten streams with an
independent bit-level writer and *randomised encoder* (vf/oracle/shorten_model.py), checks
each stream first against the model's own pure-int decoder (self-check: a disagreement is a
harness fault, i.e. inconclusive), embeds it in a SPHERE file and registers the original
samples; the monitor compares what the real decoder returns.  Also: the six shipped sph2pipe
vectors against their reference WAVs, and malformed streams (truncated anywhere after the
magic+version prefix, unknown command, unknown sample type, unsupported version) which must
raise IOError.
"""
import io
import os
import warnings
import wave

import numpy as np

from .. import monitor
from ..common import rng_for, split
from ..oracle import g711, shorten_model as M, sphere_writer as SW

OPTIMIZED_SHARDS = 1  # shards run once more in an interpreter started with -O (vf/run.py)
LEVEL = "exploration"
TECHNIQUE = "runtime monitor on read_signal(sph) fed by an independent randomised shorten encoder with a reference-decoder self-check; malformed-stream fault injection; ambient-settings monitor (stateless calls repeated under -W error and np.errstate raise)"
RULE = (
    "streams: seeded (version 1/2, 1-4 channels, 1-2000 samples, initial block size 3-64, running-mean length 0-4, max LPC order 0-8, sample type s16 LE / s16 BE / "
    "mu-law(AU2, shift 0)); the encoder picks per block DIFF0-3 / QLPC (random order <= max, random coefficients) / ZERO for all-zero blocks, the residual "
    "width, BLOCKSIZE changes down and back up incl. a short final block, BITSHIFT changes on samples with trailing zero bits; non-trivial = stream with >= 2 "
    "blocks that decodes through at least two different block commands; distinct by the stream bytes"
)
ASSUMPTIONS = [
    "mu-law streams are checked with bit shift 0 only (for larger shifts the expected bytes are shorten's own quantisation table, i.e. the data under test); "
    "the AU1 sample type and unsigned types do not occur in SPHERE files and are not generated",
    "QLPC is only emitted in blocks no shorter than the predictor history (as the statement says)",
    "a stream cut inside the 5-byte magic+version prefix is no longer a shorten stream and is not part of the malformed set",
]
ANCHOR_FILES = ("src/pydrobert/speech/_sphere.py",)
EXHAUSTIVE_PARTS = ["the six shipped sph2pipe shorten vectors"]
LEVEL_TEXT = (
    "Hundreds (quick) to thousands (thorough) of random command streams from an encoder that shares no code with the decoder, each validated by a pure-int "
    "reference decoder before use, are decoded by the real code and compared sample for sample; evidence counts every command, LPC order, bit shift, block "
    "size change and version actually decoded. Plus >= 10 malformed variants per stream. Sampled exploration over programs (command sequences)."
)
LEVEL_NOTE = "Trusts the format model in vf/oracle/shorten_model.py, which decodes all six shipped vectors to their reference WAVs."


def ulaw_expected(internal):
    """AU2 internal value (-128..127) -> mu-law byte -> 16-bit PCM"""
    code = (internal + 128) if internal < 0 else (0xFF - internal)
    return g711.ULAW[code]


class Mon:
    def __init__(self, rec):
        self.rec = rec
        self.case = None
        self.expect = {}

    def attach(self):
        from pydrobert.speech import util as U

        monitor.attach(U, "read_signal", pre=self.pre, post=self.post, is_method=False, ambient=self.v, ambient_ok=monitor.named_file)

    def v(self, what, **kw):
        self.rec.violation(dict(what=what, case=self.case, **kw))

    def register(self, key, **kw):
        self.expect[key if isinstance(key, str) else id(key)] = kw

    def pre(self, c):
        rf = c.args[0] if c.args else c.kwargs.get("rfilename")
        return self.expect.get(rf if isinstance(rf, str) else id(rf))

    def post(self, c):
        exp = c.state
        if exp is None:
            return
        info = exp["info"]
        self.rec.ev()
        if exp.get("raises"):
            self.rec.count("malformed_streams")
            self.rec.count("malformed_" + info["malformed"].split(":")[0])
            if not isinstance(c.exc, exp["raises"]):
                self.v("malformed shorten stream (%s) gave %r, documented IOError" % (info["malformed"], c.exc if c.exc is not None else "data"), check="malformed", **info)
            return
        self.rec.count("streams_decoded")
        if c.exc is not None:
            self.v("decoding a valid shorten stream raised %r (%s)" % (c.exc, info), check="raise", **info)
            return
        got, want = np.asarray(c.result), exp["expected"]
        if got.shape != want.shape:
            self.v("decoded shape %r, encoded %r (%s)" % (got.shape, want.shape, info), check="shape", **info)
        elif not np.array_equal(got, want):
            bad = np.argwhere(got != want)
            i = tuple(int(v) for v in bad[0])
            self.v("sample %r decodes to %r, encoded %r; %d of %d values differ (%s)" % (i, got[i].item(), want[i].item(), len(bad), want.size, info), check="value", first_bad=list(i), **info)


def make_stream(rng):
    nchan = int(rng.integers(1, 5))
    N = int(rng.choice([int(rng.integers(1, 40)), int(rng.integers(40, 400)), int(rng.integers(400, 2000))]))
    version = int(rng.choice([1, 2]))
    nmean = int(rng.integers(0, 5))
    maxnlpc = int(rng.choice([0, 0, 1, 2, 3, 5, 8]))
    bs0 = int(rng.integers(max(3, maxnlpc), 65))
    kind = str(rng.choice(["pcm01", "pcm10", "ulaw"]))
    if kind == "ulaw":
        ftype = M.TYPE_AU2
        chans = [np.clip(np.cumsum(rng.integers(-6, 7, N)), -128, 127).tolist() for _ in range(nchan)]
        if rng.random() < 0.4:
            a = int(rng.integers(0, N))  # a stretch of digital silence (internal value 0): whole blocks of it are sent as ZERO
            for ch in chans:
                for k in range(a, min(N, a + 100)):
                    ch[k] = 0
        expect = np.array([[ulaw_expected(v) for v in ch] for ch in chans], dtype=np.int16).T
        hdr = SW.header(nchan, N, "ulaw,embedded-shorten-v2.00", 1, "1")
    else:
        ftype = M.TYPE_S16LH if kind == "pcm01" else M.TYPE_S16HL
        amp = int(rng.choice([1, 50, 3000]))
        sh = int(rng.choice([0, 0, 1, 2, 3]))
        chans = [(np.clip(np.cumsum(rng.integers(-amp, amp + 1, N)) + int(rng.integers(-2000, 2000)), -30000 // (1 << sh), 30000 // (1 << sh)) * (1 << sh)).tolist()
                 for _ in range(nchan)]
        if rng.random() < 0.3:
            a = int(rng.integers(0, N))
            for ch in chans:
                for k in range(a, min(N, a + 100)):
                    ch[k] = 0
        expect = np.array(chans, dtype=np.int16).T
        hdr = SW.header(nchan, N, "pcm,embedded-shorten-v2.00", 2, "01" if kind == "pcm01" else "10")
    stream, stats = M.encode(chans, rng, version=version, ftype=ftype, blocksize=bs0, maxnlpc=maxnlpc, nmean=nmean)
    info = dict(kind=kind, version=version, nchan=nchan, N=N, nmean=nmean, maxnlpc=maxnlpc, blocksize=bs0, cmds={str(k): v for k, v in stats["cmds"].items()},
                bitshifts=sorted(stats["bitshifts"]), nlpc=sorted(stats["nlpc"]), blocksizes=len(stats["blocksizes"]))
    return hdr, stream, chans, ftype, expect, stats, info


def run_case(case, rec, mon=None):
    from pydrobert.speech import util as U

    own = mon is None
    if own:
        monitor.detach_all()
        mon = Mon(rec)
        mon.attach()
    mon.case = case
    rng = rng_for(case["seed"], "C13", case["idx"], 0)
    if case["kind"] == "stream":
        hdr, stream, chans, ftype, expect, stats, info = make_stream(rng)
        # ---- self-check of the harness: the model's own decoder must reproduce the input
        try:
            _, out = M.decode(stream)
            mdl = np.array(out).T if ftype != M.TYPE_AU2 else np.array([[ulaw_expected(v) for v in ch] for ch in out]).T
            ok = mdl.shape == expect.shape and np.array_equal(mdl, expect)
        except Exception as e:
            ok = False
        if not ok:
            rec.inconc("harness fault: encoder/reference-decoder self-check failed for case %d" % case["idx"])
        else:
            want = expect[:, 0] if expect.shape[1] == 1 else expect
            f = io.BytesIO(hdr + stream)
            if case["idx"] % 7 == 3:
                # the stream is a real file that has no path name (an anonymous temporary file: its .name is a descriptor number)
                import tempfile

                f = tempfile.TemporaryFile()
                f.write(hdr + stream)
                f.seek(0)
                info = dict(info, access="temporary_file_without_a_name")
                rec.count("streams_that_are_real_files_without_a_path_name")
            mon.register(f, expected=np.ascontiguousarray(want), info=info)
            with warnings.catch_warnings():
                warnings.simplefilter("ignore")
                try:
                    U.read_signal(f, force_as="sph")
                except Exception:
                    pass
            if not isinstance(f, io.BytesIO):
                f.close()
            if ftype == M.TYPE_AU2:
                # the samples such a stream encodes are mu-law bytes: asked for with a one-byte dtype they come back as
                # they are (0x7F and 0xFF both expand to 0, so the 16-bit comparison cannot tell them apart)
                codes = np.array([[(v + 128) if v < 0 else (0xFF - v) for v in ch] for ch in chans], dtype=np.uint8).T
                f2 = io.BytesIO(hdr + stream)
                mon.register(f2, expected=np.ascontiguousarray(codes[:, 0] if codes.shape[1] == 1 else codes), info=dict(info, raw_codes=True))
                rec.count("ulaw_streams_read_as_raw_codes")
                with warnings.catch_warnings():
                    warnings.simplefilter("ignore")
                    try:
                        U.read_signal(f2, dtype=np.uint8, force_as="sph")
                    except Exception:
                        pass
            for k, v in stats["cmds"].items():
                rec.count("cmd_%s" % M_CMD.get(k, k), v)
            for b in stats["bitshifts"]:
                rec.count("bitshift_%d" % b)
            for b in stats["nlpc"]:
                rec.count("lpc_order_%d" % b)
            rec.count("version_%d" % info["version"])
            rec.count("nmean_%d" % info["nmean"])
            rec.count("type_" + info["kind"])
            if stats.get("long_unary_runs"):
                rec.count("streams_with_unary_runs_over_a_whole_word")
            if info["kind"] == "ulaw" and stats["cmds"].get(M.FN_ZERO):
                rec.count("ulaw_streams_with_zero_blocks")
            if stats.get("midframe_bitshift"):
                rec.count("streams_with_bitshift_between_channel_blocks")
            if len(stats["blocksizes"]) > 1:
                rec.count("streams_with_blocksize_changes")
            ncmd = sum(1 for k in stats["cmds"] if k in (M.FN_DIFF0, M.FN_DIFF1, M.FN_DIFF2, M.FN_DIFF3, M.FN_QLPC, M.FN_ZERO))
            if ncmd >= 2:
                rec.nt(hdr + stream)
            rec.sample(info)
            # ---- malformed variants of this valid stream
            if case.get("malformed", True):
                L = len(stream)
                cuts = sorted(set([5, 6, 8, 9, 12] + [int(x) for x in rng.integers(5, max(6, L - 1), 5)] + [L - 4, L - 1]))
                for cut in cuts:
                    if 5 <= cut < L:
                        g = io.BytesIO(hdr + stream[:cut])
                        mon.register(g, raises=IOError, info=dict(malformed="truncated:%d of %d bytes" % (cut, L), **{k: info[k] for k in ("kind", "version", "nchan", "N")}))
                        try:
                            with warnings.catch_warnings():
                                warnings.simplefilter("ignore")
                                U.read_signal(g, force_as="sph")
                        except Exception:
                            pass
                # the same samples encoded again with a command code outside the format (9, 10, 12 ...) among valid commands
                for where, code, payload in (("start", 9, b"RIFF"), ("mid", 9, b""), ("end", 9, b"\x00\x01"), ("mid", 10, None), ("end", 12, None), ("start", 15, None)):
                    rng2 = rng_for(case["seed"], "C13", case["idx"], 3)
                    try:
                        bad, _ = M.encode(chans, rng2, version=info["version"], ftype=ftype, blocksize=info["blocksize"], maxnlpc=info["maxnlpc"], nmean=info["nmean"],
                                          inject=(where, code, list(payload) if payload is not None else None))
                    except Exception:
                        continue
                    g = io.BytesIO(hdr + bad)
                    mon.register(g, raises=IOError, info=dict(malformed="command:%d %s" % (code, where), **{k: info[k] for k in ("kind", "version", "nchan", "N")}))
                    rec.count("streams_with_a_foreign_command_among_valid_ones")
                    try:
                        with warnings.catch_warnings():
                            warnings.simplefilter("ignore")
                            U.read_signal(g, force_as="sph")
                    except Exception:
                        pass
                for ver in (0, 3, 7, 255):
                    g = io.BytesIO(hdr + b"ajkg" + bytes([ver]) + stream[5:])
                    mon.register(g, raises=IOError, info=dict(malformed="version:%d" % ver, **{k: info[k] for k in ("kind", "nchan", "N")}))
                    try:
                        U.read_signal(g, force_as="sph")
                    except Exception:
                        pass
    elif case["kind"] == "crafted":
        hdr = SW.header(1, 10, "pcm,embedded-shorten-v2.00", 2, "01")
        for badcmd in (9, 10, 13):
            bw = M.BitWriter()
            for v in (5, 1, 16, 0, 0, 0):
                bw.ulong(v)
            bw.uvar(badcmd, 2)
            for _ in range(64):
                bw.bit(0)
            g = io.BytesIO(hdr + b"ajkg\x02" + bw.tobytes())
            mon.register(g, raises=IOError, info=dict(malformed="command:%d" % badcmd))
            try:
                U.read_signal(g, force_as="sph")
            except Exception:
                pass
        for badtype in (9, 12, 31):
            bw = M.BitWriter()
            for v in (badtype, 1, 16, 0, 0, 0):
                bw.ulong(v)
            bw.uvar(4, 2)
            g = io.BytesIO(hdr + b"ajkg\x02" + bw.tobytes())
            mon.register(g, raises=IOError, info=dict(malformed="sampletype:%d" % badtype))
            try:
                U.read_signal(g, force_as="sph")
            except Exception:
                pass
        rec.nt("crafted")
    elif case["kind"] == "shipped":
        p = os.path.join(os.environ.get("VERIF_REPO", "/repo"), "tests", "audio")
        for name in ["123_1pcle", "123_1pcbe", "123_2pcle", "123_2pcbe", "123_1ulaw", "123_2ulaw"]:
            sph, wav = os.path.join(p, name + "_shn.sph"), os.path.join(p, name + ".wav")
            if not (os.path.exists(sph) and os.path.exists(wav)):
                rec.note("shipped vector %s missing" % name)
                continue
            w = wave.open(wav)
            ref = np.frombuffer(w.readframes(w.getnframes()), "<i2").reshape(-1, w.getnchannels())
            w.close()
            ref = ref[:, 0] if ref.shape[1] == 1 else ref
            mon.register(sph, expected=np.ascontiguousarray(ref), info=dict(shipped=name))
            try:
                U.read_signal(sph)
            except Exception:
                pass
            rec.count("shipped_vectors_checked")
            rec.nt(("shipped", name))
    mon.expect.clear()
    if own:
        monitor.report(rec)
        monitor.detach_all()


M_CMD = {M.FN_DIFF0: "DIFF0", M.FN_DIFF1: "DIFF1", M.FN_DIFF2: "DIFF2", M.FN_DIFF3: "DIFF3", M.FN_QUIT: "QUIT", M.FN_BLOCKSIZE: "BLOCKSIZE", M.FN_BITSHIFT: "BITSHIFT",
         M.FN_QLPC: "QLPC", M.FN_ZERO: "ZERO"}


def long_stream_cuts(mon, rec, spec):
    """One compressed stream of some 28 KiB (several refills of the decoder's read buffer), decoded whole and then cut at every
    length of a window well inside it: the sixteen shards' windows of 70 lengths cover every residue of the cut modulo the 1024-byte
    refill.  A cut stream is refused with IOError wherever the cut falls."""
    from pydrobert.speech import util as U

    rng = rng_for(spec["seed"], "C13", 987654)
    N = 14000
    ch = [np.clip(np.cumsum(rng.integers(-3000, 3001, N)), -30000, 30000).tolist()]
    stream, stats = M.encode(ch, rng, version=2, ftype=M.TYPE_S16HL, blocksize=64, maxnlpc=0, nmean=0)
    hdr = SW.header(1, N, "pcm,embedded-shorten-v2.00", 2, "10")
    if len(stream) < 18500:
        rec.note("long stream is only %d bytes" % len(stream))
        return
    width = max(1, spec["b"] - spec["a"])
    k = min(15, spec["a"] // width)
    info = dict(kind="pcm10", version=2, nchan=1, N=N)
    if k == 0:
        f = io.BytesIO(hdr + stream)
        mon.register(f, expected=np.array(ch[0], dtype=np.int16), info=dict(info, nmean=0, maxnlpc=0, blocksize=64, cmds={}, bitshifts=[], nlpc=[], blocksizes=1))
        try:
            U.read_signal(f, force_as="sph")
        except Exception:
            pass
    for cut in range(16500 + 70 * k, 16500 + 70 * k + 70):
        g = io.BytesIO(hdr + stream[:cut])
        mon.register(g, raises=IOError, info=dict(malformed="truncated:%d of %d bytes" % (cut, len(stream)), **info))
        try:
            with warnings.catch_warnings():
                warnings.simplefilter("ignore")
                U.read_signal(g, force_as="sph")
        except Exception:
            pass
        rec.count("long_stream_cut_at_consecutive_lengths")
    mon.expect.clear()


def plan(tier, seed):
    n = 1200 if tier == "quick" else 16000
    return [{"a": a, "b": b, "seed": seed} for a, b in split(n, 16)]


def run_shard(spec, rec):
    mon = Mon(rec)
    mon.attach()
    for i in range(spec["a"], spec["b"]):
        run_case({"kind": "stream", "idx": i, "seed": spec["seed"]}, rec, mon)
    if spec["a"] == 0:
        run_case({"kind": "shipped", "idx": 0, "seed": spec["seed"]}, rec, mon)
    run_case({"kind": "crafted", "idx": spec["a"], "seed": spec["seed"]}, rec, mon)
    long_stream_cuts(mon, rec, spec)
    monitor.report(rec)
    monitor.detach_all()


def finish(rec):
    monitor.require(rec, ["pydrobert.speech.util.read_signal"])
    need = ["cmd_DIFF0", "cmd_DIFF1", "cmd_DIFF2", "cmd_DIFF3", "cmd_QLPC", "cmd_ZERO", "cmd_BLOCKSIZE", "cmd_BITSHIFT", "cmd_QUIT", "version_1", "version_2",
            "type_pcm01", "type_pcm10", "type_ulaw", "bitshift_1", "streams_with_bitshift_between_channel_blocks", "lpc_order_1", "nmean_0", "nmean_4", "streams_with_blocksize_changes", "malformed_truncated",
            "malformed_version", "malformed_command", "malformed_sampletype", "shipped_vectors_checked"]
    for k in need:
        if not rec.counters[k]:
            rec.inconc("class %s never observed" % k)
    if rec.counters["shipped_vectors_checked"] and rec.counters["shipped_vectors_checked"] < 6:
        rec.inconc("only %d of the 6 shipped vectors were found" % rec.counters["shipped_vectors_checked"])


def classify(w):
    return None
