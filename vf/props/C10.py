"""C10 - signals-to-torch-feat-dir survives kill / resume and parallelism unchanged.

Fault enumeration on the real command-line tool, run as a child process:
  (a) a sys.monitoring failpoint (vf/fp_launcher.py) kills the tool at EVERY statement
      boundary of its output loop - hard (SIGKILL) and soft (SIGINT raised in the main thread);
  (b) strace fault injection kills it on entry to the k-th write(2) to each feature file and
      to the manifest (file exists empty / partly written / manifest line not yet written);
  (c) thorough: a second fault during the resumed run, and --num-workers 0..3.
After every fault an offline checker inspects directory + manifest + the failpoint's event log
(I1-I3); then utterances listed in the manifest get their feature files replaced by sentinels
and their INPUT files by garbage, the same command is re-run without a fault, and the result
is checked against an uninterrupted golden run (I4-I5).  I6: outputs equal across worker counts.
"""
import json
import os
import shutil
import signal
import subprocess
import sys
import tempfile

import numpy as np

from ..common import rng_for

OPTIMIZED_TAIL = 1  # shards run once more in an interpreter started with -O (vf/run.py)
LEVEL = "fault_enumeration"
TECHNIQUE = "crash-point enumeration on the real CLI: sys.monitoring statement-boundary failpoints (SIGKILL, SIGINT) + strace write(2) fault injection, offline invariant checker over directory / manifest / event log, sentinel-and-garbage resume"
RULE = (
    "per scenario (U utterances of different lengths incl. one long enough for several write(2)s, ids where one is a substring of another, dither + pre-emphasis "
    "with --seed, STFT computer): every statement-boundary event K=1..n of the output loop x {SIGKILL, SIGINT} [exhaustive], every observed write(2) to every feature "
    "file and to the manifest; thorough adds two-fault sequences and worker counts 0-3; non-trivial = a fault with >= 1 utterance completed and >= 1 remaining; "
    "distinct by (scenario, mechanism, K, signal)"
)
ASSUMPTIONS = [
    "crash = death of the process (SIGKILL) or KeyboardInterrupt; data that reached the page cache is durable (power failure is not modelled)",
    "identical = torch.equal; a pair that differs but agrees to rtol 1e-6 is recorded as rounding-level (different thread counts) and is not a violation",
    "an utterance is 'completed before the interruption' when the event log shows the statement after its manifest print started before the kill",
]
ANCHOR_FILES = ("src/pydrobert/speech/command_line.py",)
EXHAUSTIVE_PARTS = ["every statement-boundary kill point of the output loop for each scenario, with SIGKILL and with SIGINT", "every observed write(2) to each feature file and to the manifest"]
LEVEL_TEXT = (
    "Every statement boundary of the tool's output loop is used as a crash point (hard and soft) for each scenario, and every write(2) to a feature file or to the "
    "manifest as a further crash point via strace; after each crash the manifest/directory invariants are checked and a real resume must reproduce the uninterrupted "
    "run bit for bit without touching what was already listed. The set of crash points of a scenario is enumerated completely; scenarios are sampled."
)
LEVEL_NOTE = "Trusts torch.load to detect incomplete files, strace's inject/-P semantics, and sys.monitoring LINE events as the set of statement boundaries."

PY = sys.executable
VERIF = os.path.dirname(os.path.dirname(os.path.dirname(os.path.abspath(__file__))))


def env_for():
    repo = os.environ.get("VERIF_REPO", "/repo")
    e = dict(os.environ)
    e.update(PYTHONPATH="%s/src:%s" % (repo, VERIF), OMP_NUM_THREADS="1", MKL_NUM_THREADS="1", PYTHONDONTWRITEBYTECODE="1")
    e.pop("PYTHONHASHSEED", None)  # the tool's processes run as a user's would: str hashes are salted per process
    return e


def many_scenario(seed):
    """a manifest of several 8 KiB blocks: 270 utterances whose ids make every manifest line 32 characters long"""
    rng = rng_for(seed, "C10", 777, 0)
    U = 270
    ids = ["utterance-with-a-long-name-%04d" % k for k in range(U)]
    cfg = {"name": "stft", "bank": {"name": "fbank", "num_filts": 3, "sampling_rate": 8000, "high_hz": 3800.0}, "frame_length_ms": 25, "frame_shift_ms": 10}
    return {"idx": 777, "ids": ids, "lens": [int(rng.integers(250, 400)) for _ in range(U)], "cfg": cfg, "pre": [{"name": "dither", "coeff": 1.0}], "seed_opt": 5,
            "containers": ["npy"] * U}


def make_scenario(seed, idx, U, si=False):
    rng = rng_for(seed, "C10", idx, 0)
    # ids where a later (pending) id is a substring of an earlier (already listed) one, and the reverse
    pool = ["u2", "utt3", "a-b", "u21", "utt30", "x.y"]
    extra = [pool[i] for i in rng.permutation(len(pool))[:max(0, U - 3)]]
    if extra and idx % 2 == 0:
        # ids with characters outside ASCII (speaker names): a manifest line is longer in bytes than in characters
        extra[0] = ["spk_\u00e9%d" % (idx % 7), "\u8a71\u8005%d" % (idx % 5)][(idx // 2) % 2]
    ids = ["u12" if idx % 2 else "u1\u00e92"] + extra  # (every other scenario: a character outside ASCII in an id that is always there)
    ids.insert(int(rng.integers(1, len(ids) + 1)), "u1")
    ids.insert(int(rng.integers(0, len(ids) + 1)), "u")
    ids = ids[:max(U, 3)]
    lens = [int(rng.integers(300, 2500)) for _ in range(U)]
    lens[int(rng.integers(U))] = 60000  # a feature file of several hundred KiB
    cfg = {"name": "stft", "bank": {"name": "fbank", "num_filts": 5, "sampling_rate": 8000, "high_hz": 3800.0}, "frame_length_ms": 25, "frame_shift_ms": 10}
    if si:
        # a computer with state of its own between chunks (overlap-save buffers), and an utterance too short for a frame
        # right before an ordinary one: which utterances share a process depends on the kill point and on --num-workers
        cfg = {"name": "si", "bank": {"name": "gabor", "scaling_function": "mel", "num_filts": 8, "sampling_rate": 8000, "low_hz": 60.0, "high_hz": 3600.0}, "frame_shift_ms": 2.5}
        lens = [int(rng.integers(600, 1500)) for _ in range(U)]
        lens[1] = 6
    extra = {}
    if si or idx % 2 == 1:
        extra = {"prefix": "feat-", "suffix": ".feat"}  # the file names are built from these wherever the tool names a feature file
    # an id that itself looks like the name of a feature file of this run (it starts with --file-prefix and ends with --file-suffix)
    ids[0] = extra.get("prefix", "") + ids[0] + extra.get("suffix", ".pt")
    # two ids for one recording (two consecutive lines of the map name the same file): each id is an utterance of its own
    same = {"same_path": len(ids) - 1} if (idx % 2 == 0 and not si) else {}
    return {"idx": idx, "ids": ids, "lens": lens, "cfg": cfg, "pre": [{"name": "preemph"}, {"name": "dither", "coeff": 3.0}], "seed_opt": 0 if idx % 2 == 0 else int(rng.integers(1, 50)),
            "containers": [str(rng.choice(["npy", "pt"])) for _ in range(U)], **extra, **same}


def fname(scn, u):
    """name of the feature file of utterance u under the scenario's --file-prefix / --file-suffix"""
    return scn.get("prefix", "") + u + scn.get("suffix", ".pt")


def in_path(scn, d, u):
    """the recording the map names for utterance u (two consecutive ids may name one recording)"""
    idx = scn["ids"].index(u)
    if scn.get("same_path") == idx:
        idx -= 1
    return os.path.join(d, "raw", "%s.%s" % (scn["ids"][idx], scn["containers"][idx]))


def uid_of(scn, fn):
    pre, suf = scn.get("prefix", ""), scn.get("suffix", ".pt")
    return fn[len(pre):len(fn) - len(suf)] if fn.startswith(pre) and fn.endswith(suf) else fn


def write_inputs(scn, d, seed):
    import torch

    rng = rng_for(seed, "C10", scn["idx"], 1)
    os.makedirs(os.path.join(d, "raw"), exist_ok=True)
    lines = []
    for uid, n, c in zip(scn["ids"], scn["lens"], scn["containers"]):
        x = (rng.standard_normal(n) * 1000).astype(np.float32)
        p = os.path.join(d, "raw", "%s.%s" % (uid, c))
        if c == "npy":
            np.save(p, x)
        else:
            torch.save(torch.from_numpy(x), p)
        lines.append("%s %s" % (uid, p))
    if scn.get("same_path"):
        j = scn["same_path"]
        lines[j] = "%s %s" % (scn["ids"][j], lines[j - 1].split(" ", 1)[1])
    open(os.path.join(d, "map"), "w").write("\n".join(lines) + "\n")
    if scn.get("post"):
        # a statistics file that holds no statistics yet (count 0): the documented meaning is "standardise every utterance by itself"
        np.save(os.path.join(d, "empty_stats.npy"), np.zeros((2, scn["cfg"]["bank"]["num_filts"] + 1)))


def tool_args(scn, d, work, workers=0):
    return [os.path.join(d, "map"), json.dumps(scn["cfg"]), os.path.join(work, "out"), "--seed", str(scn["seed_opt"]), "--preprocess", json.dumps(scn["pre"]),
            "--manifest", os.path.join(work, "man.txt"), "--num-workers", str(workers)] + (
        ["--file-prefix", scn["prefix"]] if scn.get("prefix") else []) + (["--file-suffix", scn["suffix"]] if scn.get("suffix") else []) + (
        ["--postprocess", json.dumps(scn["post"]).replace("@EMPTYSTATS@", os.path.join(d, "empty_stats.npy"))] if scn.get("post") else [])


def run_tool(scn, d, work, K=0, sig="NONE", workers=0, strace=None, timeout=300):
    """-> (returncode, stderr tail).  Own process group, killed afterwards (orphaned DataLoader workers)."""
    os.makedirs(work, exist_ok=True)
    log = os.path.join(work, "events.log")
    cmd = [PY, "-m", "vf.fp_launcher", str(K), sig, log, "--"] + tool_args(scn, d, work, workers)
    if strace:
        cmd = ["strace", "-f", "-y", "-o", strace["out"], "-e", "trace=openat,write,pwrite64,writev"] + strace.get("inject", []) + cmd
    env = env_for()
    if scn.get("mp_start") and workers:
        env["VF_MP_START"] = scn["mp_start"]
    p = subprocess.Popen(cmd, env=env, stdout=subprocess.PIPE, stderr=subprocess.PIPE, text=True, start_new_session=True, cwd=VERIF)
    try:
        out, err = p.communicate(timeout=timeout)
        rc = p.returncode
    except subprocess.TimeoutExpired:
        rc, err = "timeout", ""
    try:
        os.killpg(p.pid, signal.SIGKILL)
    except OSError:
        pass
    if rc == "timeout":
        p.wait()
    return rc, (err or "")[-1500:]


def read_state(work):
    import torch

    man_path = os.path.join(work, "man.txt")
    raw = open(man_path).read() if os.path.exists(man_path) else ""
    files = {}
    out = os.path.join(work, "out")
    if os.path.isdir(out):
        for fn in sorted(os.listdir(out)):
            try:
                files[fn] = torch.load(os.path.join(out, fn))
            except Exception:
                files[fn] = None
    return raw, files


LINES_SEEN = set()  # source lines of command_line.py executed by the tool's child processes (from their event logs)


def events(work):
    p = os.path.join(work, "events.log")
    ev, fired = [], False
    if os.path.exists(p):
        for l in open(p):
            parts = l.rstrip("\n").split("\t")
            if parts[0].isdigit():
                ev.append((int(parts[0]), parts[1]))
                if len(parts) > 2 and parts[2].isdigit():
                    LINES_SEEN.add(int(parts[2]))
            elif parts[0] == "C" and len(parts) > 1 and parts[1].isdigit():
                LINES_SEEN.add(int(parts[1]))
            elif parts[0] == "FIRED":
                fired = True
    return ev, fired


def same(a, b):
    import torch

    if a is None or b is None or a.shape != b.shape or a.dtype != b.dtype:
        return "different"
    if torch.equal(a, b):
        return "identical"
    if torch.allclose(a, b, rtol=1e-6, atol=0):
        return "rounding"
    return "different"


class Checker:
    def __init__(self, rec, case, scn, gold):
        self.rec, self.case, self.scn, self.gold = rec, case, scn, gold

    def v(self, what, **kw):
        self.rec.violation(dict(what=what, case=self.case, **kw))

    def after_fault(self, work, fault, completed_by_log):
        """I1-I3 on the state a fault left behind; returns the list of utterances listed in the manifest"""
        raw, files = read_state(work)
        ids = self.scn["ids"]
        lines = raw.split("\n")
        torn = lines[-1] != ""
        listed = [l for l in lines[:-1]] + ([lines[-1]] if torn else [])
        info = dict(fault=fault, manifest=listed, files={k: (None if v is None else list(v.shape)) for k, v in files.items()})
        if torn:
            self.v("manifest ends with a torn line %r after %s" % (lines[-1], fault), check="I3_torn", **info)
        if len(set(listed)) != len(listed) or any(l not in ids for l in listed):
            self.v("manifest holds duplicate or foreign lines %r after %s" % (listed, fault), check="I3_lines", **info)
        for u in listed:
            if u not in ids:
                continue
            t = files.get(fname(self.scn, u))
            s = same(t, self.gold[u]) if t is not None else "missing"
            if s == "rounding":
                self.rec.count("rounding_level_differences")
            elif s != "identical":
                self.v("manifest lists %r but its feature file is %s after %s" % (u, "missing / not loadable" if s == "missing" else "not the uninterrupted run's tensor", fault),
                       check="I1_listed_incomplete", utt=u, **info)
        if completed_by_log is not None:
            must = ids[:max(0, completed_by_log)]
            missing = [u for u in must if u not in listed]
            if missing:
                self.v("utterances %r had completed (manifest statement passed) before %s but are not in the manifest (%r)" % (missing, fault, listed), check="I2_progress_lost",
                       completed=completed_by_log, **info)
        return [u for u in listed if u in ids]

    def resume(self, d, work, listed, fault, workers=0, trace=False):
        """I4/I5: sentinel the listed outputs, garble their inputs, re-run the same command, compare with the golden run"""
        import torch

        sentinel = torch.full((2, 2), -12345.0)
        saved_inputs = {}
        needed = {in_path(self.scn, d, v) for v in self.scn["ids"] if v not in listed}
        for u in listed:
            p = os.path.join(work, "out", fname(self.scn, u))
            if os.path.exists(p):
                torch.save(sentinel, p)
            ip = in_path(self.scn, d, u)
            if ip in needed or ip in saved_inputs:
                continue  # (a recording that an utterance still to be computed reads as well stays as it is)
            saved_inputs[ip] = open(ip, "rb").read()
            open(ip, "wb").write(b"garbage that no reader can decode")
        st = {"out": os.path.join(work, "resume_strace.txt")} if trace else None
        try:
            rc, err = run_tool(self.scn, d, work, 0, "NONE", workers, strace=st)
        finally:
            for ip, blob in saved_inputs.items():
                open(ip, "wb").write(blob)
        self.rec.count("resumes")
        raw, files = read_state(work)
        info = dict(fault=fault, listed_before_resume=listed)
        if st and os.path.exists(st["out"]):
            # second, independent observation of "neither recomputed nor rewritten": the system calls of the resumed run
            opened = set()
            for l in open(st["out"]):
                if "openat(" in l and '"' in l and " = -1" not in l:
                    opened.add(l.split('"')[1])
            self.rec.count("resumes_observed_with_strace")
            for u in listed:
                ip = in_path(self.scn, d, u)
                op = os.path.join(work, "out", fname(self.scn, u))
                if (ip in opened and ip not in needed) or op in opened:
                    self.v("the resumed run opened %s of %r, which the manifest already listed (%s)" % ("the input" if ip in opened else "the feature file", u, fault),
                           check="I5_opened", utt=u, **info)
        if rc != 0:
            self.v("the resumed run exited with %r after %s (stderr: %s)" % (rc, fault, err.strip().splitlines()[-1] if err.strip() else ""), check="I4_resume_exit", **info)
            return
        lines = raw.split("\n")
        final = lines[:-1] if lines[-1] == "" else lines
        if sorted(final) != sorted(self.scn["ids"]):
            self.v("after the resume the manifest lists %r, expected each of %r exactly once (%s)" % (final, self.scn["ids"], fault), check="I4_manifest", **info)
        for u in self.scn["ids"]:
            t = files.get(fname(self.scn, u))
            if u in listed:
                if t is None or not torch.equal(t, sentinel):
                    self.v("utterance %r was listed in the manifest before the resume but was recomputed / rewritten (%s)" % (u, fault), check="I5_rewritten", utt=u, **info)
            else:
                s = same(t, self.gold[u]) if t is not None else "missing"
                if s == "rounding":
                    self.rec.count("rounding_level_differences")
                elif s != "identical":
                    self.v("after the resume %r is %s (%s)" % (u, "missing / not loadable" if s == "missing" else "different from the uninterrupted run", fault), check="I4_differs",
                           utt=u, **info)
        extra = sorted(set(files) - {fname(self.scn, u) for u in self.scn["ids"]})
        if extra:
            self.v("after the resume the directory holds unexpected files %r (%s)" % (extra, fault), check="I4_stray_files", **info)


def golden(scn, d, base):
    work = os.path.join(base, "gold")
    rc, err = run_tool(scn, d, work)
    if rc != 0:
        return None, None, "golden run failed rc=%r: %s" % (rc, err[-300:])
    raw, files = read_state(work)
    gold = {uid_of(scn, fn): t for fn, t in files.items()}
    ev, _ = events(work)
    if sorted(gold) != sorted(scn["ids"]) or any(t is None for t in gold.values()) or raw.split() != scn["ids"]:
        # the run was not interrupted and reported success: every utterance is complete, and the manifest lists every one of them
        return None, None, "VIOLATION an uninterrupted run that exited 0 left files %r and manifest %r for utterances %r" % (sorted(gold), raw.split(), scn["ids"])
    return gold, ev, None


def completed_before(ev, K):
    """number of manifest statements that had finished before event K fired"""
    return sum(1 for i, k in ev if k == "manifest" and i < K)


def run_case(case, rec):
    """one (scenario, fault) pair - or a whole group when called from run_shard"""
    import torch  # noqa

    scn = case["scn"]
    base = tempfile.mkdtemp(prefix="c10_")
    try:
        d = os.path.join(base, "data")
        os.makedirs(d)
        write_inputs(scn, d, case["seed"])
        gold, gev, err = golden(scn, d, base)
        if gold is None:
            if err.startswith("VIOLATION "):
                rec.ev()
                rec.violation(dict(what=err[len("VIOLATION "):], case={"scn": {k: v for k, v in scn.items() if k != "lens"}, "seed": case["seed"]}, check="I0_uninterrupted"))
            else:
                rec.inconc(err)
            return
        n = len(gev)
        chk = Checker(rec, case, scn, gold)
        U = len(scn["ids"])
        rec.count("golden_runs")
        faults = case["faults"]
        if faults == "count":
            rec.extra.setdefault("statement_events_per_scenario", {})[str(scn["idx"])] = n
            return
        for f in faults:
            work = os.path.join(base, "w_%s" % f["tag"])
            if f["mech"] == "stmt":
                K = f["K"]
                if K > n:
                    continue
                rc, err = run_tool(scn, d, work, K, f["sig"], f.get("workers", 0))
                ev, fired = events(work)
                if not fired:
                    rec.inconc("failpoint K=%d did not fire (scenario %d)" % (K, scn["idx"]))
                    continue
                done = completed_before(ev, K)
                fault = "%s at statement event %d/%d (%s next, %d manifest statements completed)" % (f["sig"], K, n, dict(ev).get(K), done)
                rec.ev()
                rec.count("faults_stmt_" + f["sig"])
                rec.count("fault_before_" + str(dict(ev).get(K)))
                listed = chk.after_fault(work, fault, done)
                if f.get("second"):
                    # a second fault during the resumed run
                    K2 = f["second"]
                    rc2, _ = run_tool(scn, d, work, K2, "SIGKILL", 0)
                    ev2, fired2 = events(work)
                    if fired2:
                        rec.count("two_fault_sequences")
                        fault += " + SIGKILL at event %d of the resumed run" % K2
                        before = list(listed)
                        listed = chk.after_fault(work, fault, None)
                        lost = [u for u in before if u not in listed]
                        if lost:
                            chk.v("utterances %r were listed in the manifest before the resumed run was killed and are gone afterwards (%s)" % (lost, fault), check="I2_progress_lost",
                                  fault=fault, manifest=listed)
                chk.resume(d, work, listed, fault, f.get("resume_workers", 0), trace=bool(f.get("trace")))
                if 0 < done and len(listed) < U:
                    rec.nt((scn["idx"], "stmt", K, f["sig"], f.get("second"), f.get("workers", 0)))
            elif f["mech"] == "write":
                target = os.path.join(work, "out", fname(scn, f["utt"])) if f["utt"] != "@manifest" else os.path.join(work, "man.txt")
                os.makedirs(os.path.join(work, "out"), exist_ok=True)
                st = {"out": os.path.join(work, "strace.txt"), "inject": ["-e", "inject=%s:signal=SIGKILL:when=%d" % (f.get("sys", "write"), f["k"]), "-P", target]}
                rc, err = run_tool(scn, d, work, 0, "NONE", 0, strace=st)
                killed = rc in (-9, 137) or (isinstance(rc, int) and rc < 0)
                if not killed:
                    rec.count("write_faults_not_reached")
                    shutil.rmtree(work, ignore_errors=True)
                    continue
                ev, _ = events(work)
                fault = "SIGKILL on entry to %s #%d to %s" % (f.get("sys", "write"), f["k"], os.path.basename(target))
                if f.get("torn"):
                    # the kill falls in the middle of the previous write instead: only the first half of its bytes reached the file
                    import re

                    sizes = []
                    for l in open(st["out"]):
                        m = re.search(r"(?:write|pwrite64|writev)\(\d+<(.+?)>.*\) = (\d+)\s*$", l)
                        if m and m.group(1) == target:
                            sizes.append(int(m.group(2)))
                    if not sizes or sizes[-1] < 2 or not os.path.exists(target) or os.path.getsize(target) != sum(sizes):
                        rec.count("torn_write_faults_not_constructible")
                        shutil.rmtree(work, ignore_errors=True)
                        continue
                    os.truncate(target, sum(sizes[:-1]) + sizes[-1] // 2)
                    fault = "SIGKILL in the middle of the last write to %s before its %s #%d (%d of its %d bytes written, file of %d bytes)" % (
                        os.path.basename(target), f.get("sys", "write"), f["k"], sizes[-1] // 2, sizes[-1], sum(sizes[:-1]) + sizes[-1] // 2)
                    rec.count("faults_in_the_middle_of_a_write")
                rec.ev()
                rec.count("faults_write_manifest" if f["utt"] == "@manifest" else "faults_write_feature_file")
                # progress known from the event log: manifest statements whose successor event was logged
                done = sum(1 for i, k in ev if k == "manifest" and any(j > i for j, _ in ev))
                listed = chk.after_fault(work, fault, done)
                chk.resume(d, work, listed, fault)
                if listed and len(listed) < U:
                    rec.nt((scn["idx"], "write", f["utt"], f["k"]))
            elif f["mech"] == "workers":
                outs = {}
                for w in f["counts"]:
                    wk = os.path.join(base, "nw%d" % w)
                    rc, err = run_tool(scn, d, wk, 0, "NONE", w)
                    raw, files = read_state(wk)
                    rec.ev()
                    rec.count("worker_count_runs")
                    if rc != 0:
                        chk.v("--num-workers %d exited with %r" % (w, rc), check="I6_exit", workers=w)
                        continue
                    for u in scn["ids"]:
                        s = same(files.get(fname(scn, u)), gold[u])
                        if s == "rounding":
                            rec.count("rounding_level_differences")
                        elif s != "identical":
                            chk.v("--num-workers %d gives a different %r than --num-workers 0" % (w, u), check="I6_workers", workers=w, utt=u)
                    if sorted(raw.split()) != sorted(scn["ids"]):
                        chk.v("--num-workers %d manifest %r" % (w, raw.split()), check="I6_manifest", workers=w)
                    shutil.rmtree(wk, ignore_errors=True)
                rec.nt((scn["idx"], "workers", tuple(f["counts"])))
            shutil.rmtree(work, ignore_errors=True)
        rec.sample({"scenario": {"ids": scn["ids"], "lens": scn["lens"], "seed_opt": scn["seed_opt"]}, "statement_events": n, "faults_in_this_group": [f["tag"] for f in faults][:12]})
    finally:
        shutil.rmtree(base, ignore_errors=True)


def write_counts(scn, seed):
    """discover how many write(2)s each feature file and the manifest receive (strace, no injection)"""
    base = tempfile.mkdtemp(prefix="c10w_")
    try:
        d = os.path.join(base, "data")
        os.makedirs(d)
        write_inputs(scn, d, seed)
        work = os.path.join(base, "w")
        st = {"out": os.path.join(base, "strace.txt")}
        rc, err = run_tool(scn, d, work, 0, "NONE", 0, strace=st)
        counts = {}
        if os.path.exists(st["out"]):
            for l in open(st["out"]):
                if ("write(" in l or "writev(" in l or "pwrite64(" in l) and "<" in l:
                    path = l.split("<", 1)[1].split(">", 1)[0]
                    if path.startswith(os.path.join(work, "out")) or path == os.path.join(work, "man.txt"):
                        # (strace counts `when=` per system call name: the calls are counted per name here as well)
                        sysname = "writev" if "writev(" in l else "pwrite64" if "pwrite64(" in l else "write"
                        key = (os.path.basename(path), sysname)
                        counts[key] = counts.get(key, 0) + 1
        ev, _ = events(work)
        return rc, counts, len(ev)
    finally:
        shutil.rmtree(base, ignore_errors=True)


def plan(tier, seed):
    q = tier == "quick"
    nscn = 1 if q else 4
    U = 3 if q else 5
    specs = []
    for si in range(nscn):
        scn = make_scenario(seed, si, U if si % 2 == 0 else 3)
        rc, wc, n = write_counts(scn, seed)
        if rc != 0 or not n:
            specs.append({"cases": [{"scn": scn, "seed": seed, "faults": "count"}], "note": "probe run failed rc=%r" % (rc,)})
            continue
        faults = []
        for K in range(1, n + 1):
            faults.append({"mech": "stmt", "K": K, "sig": "SIGKILL", "tag": "k%d" % K, "trace": (K % 8 == 3) if q else (K % 3 == 0)})
            faults.append({"mech": "stmt", "K": K, "sig": "SIGINT", "tag": "i%d" % K})
        for (name, sysname), cnt in sorted(wc.items()):
            utt = "@manifest" if name == "man.txt" else uid_of(scn, name)
            ks = list(range(1, cnt + 1))
            if len(ks) > 6 and q:
                ks = ks[:3] + [ks[len(ks) // 2]] + ks[-2:]
            elif len(ks) > 16:
                ks = ks[:6] + ks[len(ks) // 2 - 2: len(ks) // 2 + 2] + ks[-6:]
            for k in ks:
                faults.append({"mech": "write", "utt": utt, "k": k, "sys": sysname, "tag": "w%s%s%d" % (utt.strip("@"), sysname, k)})
        # kills in the middle of a write (its first half written): the kill is placed on entry to the write that follows
        for (name, sysname), cnt in sorted(wc.items()):
            if name != "man.txt" and sysname == "write":
                faults.append({"mech": "write", "utt": uid_of(scn, name), "k": 1, "sys": "write", "torn": True, "tag": "t%s" % uid_of(scn, name)})
        rng = rng_for(seed, "C10", si, 5)
        if q:
            # a few two-fault sequences: first fault after at least one manifest line, second early in the resumed run
            for K in (n // 2, n - 3):
                faults.append({"mech": "stmt", "K": K, "sig": "SIGKILL", "second": int(rng.integers(1, 4)), "tag": "d%d" % K})
            # kills of a run that uses worker processes (results may reach the output loop in groups)
            for K in sorted({max(1, n // 3), max(1, n // 2), max(1, 2 * n // 3), max(1, n - 4)}):
                faults.append({"mech": "stmt", "K": K, "sig": "SIGKILL", "workers": 2, "resume_workers": int(rng.integers(0, 3)), "tag": "nw2_%d" % K})
        if not q:
            for K in range(2, n, 2):
                faults.append({"mech": "stmt", "K": K, "sig": "SIGKILL", "second": int(rng.integers(1, max(2, n // 2))), "tag": "d%d" % K})
            for w in (1, 2, 3):
                for K in sorted({int(x) for x in rng.integers(1, n + 1, 6)}):
                    faults.append({"mech": "stmt", "K": K, "sig": "SIGKILL", "workers": w, "resume_workers": int(rng.integers(0, 3)), "tag": "nw%d_%d" % (w, K)})
        faults.append({"mech": "workers", "counts": [1, 2] if q else [1, 2, 3], "tag": "workers"})
        # groups of faults share one golden run
        per = 6 if q else 10
        for g in range(0, len(faults), per):
            specs.append({"cases": [{"scn": scn, "seed": seed, "faults": faults[g:g + per]}], "timeout": 3000})
        specs.append({"cases": [{"scn": scn, "seed": seed, "faults": "count"}]})
    # a long manifest (several 8 KiB blocks of 32-character lines): one kill near the end, then the resume
    scn = many_scenario(seed)
    rc, wc, n = write_counts(scn, seed)
    if rc != 0 or not n:
        specs.append({"cases": [{"scn": scn, "seed": seed, "faults": "count"}], "note": "probe run failed rc=%r" % (rc,)})
    else:
        specs.append({"cases": [{"scn": scn, "seed": seed, "faults": [{"mech": "stmt", "K": n - 12, "sig": "SIGKILL", "tag": "many%d" % (n - 12)}]}], "timeout": 3000})
    if not q:
        # worker processes started by spawn (the default on macOS / Windows, required with CUDA) instead of fork
        scn = dict(make_scenario(seed, 0, 5), mp_start="spawn")
        rc, wc, n = write_counts(scn, seed)
        if rc == 0 and n:
            faults = [{"mech": "stmt", "K": K, "sig": "SIGKILL", "workers": 2, "resume_workers": 2, "tag": "spawn%d" % K} for K in sorted({max(2, n // 2), max(2, 2 * n // 3)})]
            specs.append({"cases": [{"scn": scn, "seed": seed, "faults": faults}], "timeout": 3000})
    # a short-integration computer (state of its own between chunks) with a too-short utterance in the middle
    scn = make_scenario(seed, 100, 3, si=True)
    rc, wc, n = write_counts(scn, seed)
    if rc != 0 or not n:
        specs.append({"cases": [{"scn": scn, "seed": seed, "faults": "count"}], "note": "probe run failed rc=%r" % (rc,)})
    else:
        ks = sorted({max(1, n // 3), max(1, n // 2), max(1, 2 * n // 3), max(1, n - 2)}) if q else list(range(1, n + 1, 2))
        faults = [{"mech": "stmt", "K": K, "sig": "SIGKILL", "tag": "sik%d" % K} for K in ks]
        faults.append({"mech": "workers", "counts": [2] if q else [1, 2, 3], "tag": "siworkers"})
        per = 6 if q else 10
        for g in range(0, len(faults), per):
            specs.append({"cases": [{"scn": scn, "seed": seed, "faults": faults[g:g + per]}], "timeout": 3000})
    # a post-processor object that lives as long as its process does: Standardize given a statistics file without statistics (each utterance
    # is standardised by itself); which utterances share a process depends on the kill point and on --num-workers
    scn = dict(make_scenario(seed, 101, 4), post=[{"name": "standardize", "rfilename": "@EMPTYSTATS@"}])
    rc, wc, n = write_counts(scn, seed)
    if rc != 0 or not n:
        specs.append({"cases": [{"scn": scn, "seed": seed, "faults": "count"}], "note": "probe run failed rc=%r" % (rc,)})
    else:
        ks = sorted({max(1, n // 2), max(1, 2 * n // 3)}) if q else list(range(2, n + 1, 3))
        faults = [{"mech": "stmt", "K": K, "sig": "SIGKILL", "tag": "postk%d" % K} for K in ks]
        faults.append({"mech": "workers", "counts": [2] if q else [1, 2, 3], "tag": "postworkers"})
        per = 6 if q else 10
        for g in range(0, len(faults), per):
            specs.append({"cases": [{"scn": scn, "seed": seed, "faults": faults[g:g + per]}], "timeout": 3000})
    return specs


def run_shard(spec, rec):
    if spec.get("note"):
        rec.inconc(spec["note"])
    for case in spec["cases"]:
        run_case(case, rec)
    # the tool runs in child processes: their statement logs are this check's anchor coverage
    rec.extra["anchor_lines_hit_children"] = {"pydrobert/speech/command_line.py": sorted(LINES_SEEN)}


def finish(rec):
    for k in ("faults_stmt_SIGKILL", "faults_stmt_SIGINT", "faults_write_feature_file", "faults_write_manifest", "resumes", "worker_count_runs", "two_fault_sequences", "fault_before_save",
              "fault_before_manifest", "fault_before_loop"):
        if not rec.counters[k]:
            rec.inconc("fault class %s never exercised" % k)
    rec.extra["exhaustive"] = True


def classify(w):
    return None
