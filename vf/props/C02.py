"""C02 - STFT coefficients equal their documented definition.

Monitor: post-hook on ShortTimeFourierTransformFrameComputer.compute_full.  For every
call it rebuilds the expected matrix from the documentation alone (vf/oracle/stft_ref.py):
frame count, documented frame bounds with symmetric reflection, FULL complex DFT of
window x frame at the DFT size the computer was observed to use, filter responses rebuilt
from get_truncated_response by the documented recipes, sum of |X H|^p over all bins,
log floor, mean-square energy.
"""
import numpy as np

from .. import sanit, compmon, gen, monitor
from ..common import rng_for, split
from ..oracle import stft_ref as R

OPTIMIZED_SHARDS = 1  # shards run once more in an interpreter started with -O (vf/run.py)
LEVEL = "exploration"
TECHNIQUE = "runtime monitor on STFT compute_full with an independent full-DFT reference model (DFT size observed through a construction spy); write sanitizer on inputs"
RULE = (
    "cases: seeded (bank config: 4 bank types x 4 scales x real/analytic/complex, ranges inside / touching 0 Hz / touching Nyquist; frame length incl. "
    "default, frame shift incl. > frame length, style, kaldi_shift, padded/unpadded DFT so that all D mod 4 occur, window, log/power/energy) x signals "
    "of lengths {0,1,fl//2,fl//2+1,fl-1,fl,fl+1,3fl+r,...} and kinds (noise at 3 amplitudes, zeros, constants, impulses, alternating, sines); "
    "non-trivial = >=1 frame and (real bank, or a complex bank with a filter whose rebuilt response has non-zero bins on both sides of D/2 or wraps); "
    "distinct by (configuration, N, signal kind)"
)
ASSUMPTIONS = [
    "tolerance (linear domain): |a-b| <= 1e-7 max(|a|,|b|) + 1e-10 S for float64 input, 1e-4 / 1e-6 for float32 input (S = largest coefficient)",
    "the DFT size is the one observed in the computer's get_truncated_response calls and must equal the documented rule (frame length, padded to the nearest power of two >= it when pad_to_nearest_power_of_two); if none is observed the documented rule is used",
    "window samples come from a fresh WindowFunction of the configured kind (tied to closed forms by C20)",
    "the absolute tolerance term is never below 1e-12 x (sum over bins of |DFT|^p): coefficients of a filter whose response is < 1e-12 on the whole grid are the bank's own rounding noise; nor below 1e-16 x (sum of |frame samples|)^p, the rounding level of the DFT of the frame itself (matters for windows that are ~1e-17 at width 2)",
]
ANCHOR_FILES = ("src/pydrobert/speech/compute.py", "src/pydrobert/speech/filters.py")
EXHAUSTIVE_PARTS = []
SUITE_TESTS = ['tests/test_compute.py', 'tests/test_torch.py', 'tests/test_command_line.py']  # the repository's own tests as an extra monitored workload (thorough tier)
LEVEL_TEXT = (
    "Every compute_full call of the workload (2.5e3 quick / 4e4 thorough computer x signal cases, all four D mod 4 classes, complex banks whose "
    "responses wrap below 0 Hz or past Nyquist, all flags) is compared coefficient by coefficient with a reference that shares no code with the "
    "implementation. Sampled exploration; evidence counts the wrap/mirror classes actually seen."
)
LEVEL_NOTE = "Trusts np.fft.fft and the bank's get_truncated_response values (C05-C07 tie those to the bank's definition)."


def expected_dft_size(fl, pad):
    return int(2 ** np.ceil(np.log2(fl))) if pad else fl


class StftMonitor:
    """Reusable: C01, C04, C09 and C14 attach it too."""

    def __init__(self, rec, strict_scope=True):
        self.rec = rec
        self.case = None
        self._H = {}
        from ..history import ResultHistory

        self.hist = ResultHistory(rec, self.v, keep=2)  # a feature matrix a caller holds on to stays what it was when the computer is used again

    def attach(self):
        from pydrobert.speech import compute as C

        compmon.attach()
        monitor.attach(C.ShortTimeFourierTransformFrameComputer, "compute_full", pre=self.pre, post=self.post)

    def v(self, what, **kw):
        self.rec.violation(dict(what=what, case=self.case, **kw))

    def pre(self, c):
        x = c.args[0] if c.args else c.kwargs.get("signal")
        return np.array(x, copy=True)

    def geometry(self, comp):
        inf = compmon.info(comp)
        if inf is None or inf["args"] is None:
            return None
        a = inf["args"]
        fl, fs = int(comp.frame_length), int(comp.frame_shift)
        style = compmon.documented_style(comp, a)
        if comp.frame_style != style and not getattr(comp, "_vf_style_reported", False):
            try:
                comp._vf_style_reported = True
            except Exception:
                pass
            self.v("frame_style is %r; documented for frame_style=%r and a %s bank: %r" % (comp.frame_style, a.get("frame_style"),
                   "zero-phase" if comp.bank.is_zero_phase else "non-zero-phase", style), check="frame_style")
        if a.get("frame_style") is None:
            self.rec.count("stft_default_frame_style")
        if a.get("window_function") is None:
            self.rec.count("stft_default_window")
        kaldi = bool(a.get("kaldi_shift"))
        pad = bool(a.get("pad_to_nearest_power_of_two"))
        widths = inf["trunc_widths"]
        if len(widths) == 1:
            D = widths[0]
            self.rec.count("dft_size_observed")
            if D != expected_dft_size(fl, pad) and not getattr(comp, "_vf_dft_reported", False):
                try:
                    comp._vf_dft_reported = True
                except Exception:
                    pass
                self.v("the computer transforms %d-sample frames with a %d-point DFT; documented: %s" % (fl, D, "the frame length padded to the nearest power of two (%d)" % expected_dft_size(fl, True)
                       if pad else "the frame length itself"), check="dft_size", fl=fl, D=D, pad=pad)
        else:
            D = expected_dft_size(fl, pad)
            self.rec.count("dft_size_from_documented_rule")
        return dict(fl=fl, fs=fs, style=style, kaldi=kaldi, pad=pad, D=D, use_log=bool(a.get("use_log")), use_power=bool(a.get("use_power")),
                    energy=bool(a.get("include_energy")), args=a)

    def responses(self, comp, D):
        key = id(comp)
        ent = self._H.get(key)
        if ent is None or ent[0]() is not comp or ent[1] != D:
            import weakref

            bank = comp.bank
            H, meta = [], []
            with monitor.quiet():
                for i in range(bank.num_filts):
                    full, b, L = R.rebuild_full(bank, i, D)
                    H.append(full)
                    meta.append((b, L))
            ent = (weakref.ref(comp), D, H, meta)
            self._H[key] = ent
            if len(self._H) > 64:
                self._H.pop(next(iter(self._H)))
        return ent[2], ent[3]

    def post(self, c):
        from pydrobert.speech import config

        comp = c.self
        x = c.state
        g = self.geometry(comp)
        if g is None or x is None:
            self.rec.count("stft_unknown_construction")
            return
        if x.ndim != 1 or not np.issubdtype(x.dtype, np.floating) or not np.all(np.isfinite(x)):
            self.rec.count("stft_out_of_scope_input")
            return
        if comp.started and isinstance(c.exc, ValueError):
            self.rec.count("stft_rejected_mid_utterance")
            return
        self.rec.ev()
        self.rec.count("stft_compute_full_calls")
        N = len(x)
        fl, fs, D = g["fl"], g["fs"], g["D"]
        info = dict(op="stft.compute_full", N=N, fl=fl, fs=fs, D=D, style=g["style"], kaldi=g["kaldi"], use_log=g["use_log"], use_power=g["use_power"],
                    energy=g["energy"], dtype=str(x.dtype), is_real=bool(comp.bank.is_real), bank=type(comp.bank).__name__)
        if fl < 1 or fs < 1:
            self.rec.count("stft_out_of_scope_geometry")
            return
        if c.exc is not None:
            self.v("compute_full raised %r (N=%d fl=%d fs=%d %s%s)" % (c.exc, N, fl, fs, g["style"], " kaldi" if g["kaldi"] else ""), check="raise",
                   exc=type(c.exc).__name__, **info)
            return
        got = np.asarray(c.result)
        H, meta = self.responses(comp, D)
        window = np.asarray(compmon.window_for(g["args"], g["style"], fl), dtype=np.float64)
        want = R.stft_ref(x, fl, fs, g["style"], g["kaldi"], window, D, H, g["use_log"], g["use_power"], g["energy"], config.LOG_FLOOR_VALUE)
        F = comp.bank.num_filts + int(g["energy"])
        if got.ndim != 2 or got.shape[1] != F or got.shape[0] != want.shape[0]:
            self.v("compute_full returned shape %r; documented (%d, %d) for N=%d fl=%d fs=%d" % (got.shape, want.shape[0], F, N, fl, fs), check="shape", **info)
            return
        f32 = x.dtype == np.float32 or got.dtype == np.float32
        f16 = x.dtype == np.float16
        rtol, atol = (1e-2, 1e-3) if f16 else (1e-4, 1e-6) if f32 else (1e-7, 1e-10)
        if f16:
            self.rec.count("stft_float16_inputs")
        if comp.bank.is_real and any(abs(h[0]) > 1e-3 or (D % 2 == 0 and abs(h[D // 2]) > 1e-3) for h in H):
            self.rec.count("real_filter_with_response_on_the_0Hz_or_nyquist_bin")
        if f16 and got.shape == want.shape:
            # the result is stored in the signal's type: two quanta of a float16 value are rounding (in the log domain a
            # quantum of a value near -138 is an eighth, which no relative tolerance on exp() covers)
            with np.errstate(all="ignore"):
                q = 2 * np.spacing(np.abs(want).astype(np.float16)).astype(np.float64)
            got = np.where(np.abs(got.astype(np.float64) - want) <= q, want, got.astype(np.float64))
            # ... and a value beyond the largest float16 is stored as an infinity of that sign
            with np.errstate(all="ignore"):
                w16 = want.astype(np.float16).astype(np.float64)
            over = ~np.isfinite(w16) & (got == w16)
            if np.any(over):
                self.rec.count("float16_results_beyond_the_type_range")
                got, want = np.where(over, 0.0, got), np.where(over, 0.0, want)
        ok, i, detail = R.compare_features(got, want, g["use_log"], config.LOG_FLOOR_VALUE, rtol, atol, R.stft_ref.last_xscale)
        if not ok:
            col = None if i is None else i[1]
            which = "energy" if (g["energy"] and col == 0) else "filter %s" % (None if col is None else col - int(g["energy"]))
            self.v("frame %s %s: %s (N=%d fl=%d fs=%d D=%d %s%s %s)" % (None if i is None else i[0], which, detail, N, fl, fs, D, g["style"],
                   " kaldi" if g["kaldi"] else "", info["bank"]), check="value", coeff=which, **info)
        if ok and g["energy"] and not f16 and got.shape[0]:
            # the energy coefficient is a sum of squares of the frame's own samples: no cancellation, so it is accurate relative to
            # the frame's own level however loud the rest of the recording is
            e_got, e_want = got[:, 0].astype(np.float64), want[:, 0]
            if g["use_log"]:
                e_got, e_want = np.exp(e_got), np.exp(e_want)
            rt = 1e-5 if f32 else 1e-9
            floor = config.LOG_FLOOR_VALUE if g["use_log"] else 0.0
            bad = np.abs(e_got - e_want) > rt * np.maximum(np.abs(e_want), floor) + 1e-290
            self.rec.count("energy_coefficients_judged_at_their_own_frame_level", int(len(e_want)))
            if np.any(bad):
                k = int(np.argmax(bad))
                self.v("frame %d energy: got %r want %r relative to the frame's own level (N=%d fl=%d fs=%d %s%s)" % (k, float(got[k, 0]), float(want[k, 0]), N, fl, fs,
                       g["style"], " kaldi" if g["kaldi"] else ""), check="value", coeff="energy", **info)
        if g["args"].get("frame_length_ms") is None:
            self.rec.count("default_frame_length_computers")
            for fi, h in enumerate(H):
                if not np.any(h != 0):
                    self.v("default frame length %d leaves filter %d without a non-zero DFT bin (D=%d)" % (fl, fi, D), check="default_frame_length", **info)
        if not np.array_equal(np.asarray(c.args[0] if c.args else c.kwargs.get("signal")), x):
            self.v("compute_full modified its input", check="input_modified", **info)
        if isinstance(c.result, np.ndarray):
            self.hist.observe(comp, c.result, "STFT compute_full", **info)
        # ---- classification for the evidence
        self.rec.count("D_mod_4_eq_%d" % (D % 4))
        if want.shape[0]:
            wraps = mirror = False
            if not comp.bank.is_real:
                for (b, L), h in zip(meta, H):
                    if b + L > D:
                        wraps = True
                    nz = np.nonzero(h)[0]
                    if len(nz) and nz.min() < D / 2 < nz.max():
                        mirror = True
                if wraps:
                    self.rec.count("complex_filter_wraps_past_D")
                if mirror:
                    self.rec.count("complex_filter_spans_both_sides_of_half")
            if comp.bank.is_real or wraps or mirror:
                self.rec.nt((repr(sorted((k, repr(v)) for k, v in g["args"].items() if k != "bank")), repr(self.case and self.case.get("cfg", {}).get("bank")), N, str(x.dtype),
                             float(np.sum(x[:8]))))
        else:
            self.rec.count("empty_results")


def lengths_for(rng, fl, fs):
    L = {0, 1, max(0, fl // 2 - 1), fl // 2, fl // 2 + 1, fl - 1, fl, fl + 1, 2 * fl, 3 * fl + int(rng.integers(0, max(1, fs)))}
    L |= {fs // 2, fs, fs + 1, fl + fs, fl + 2 * fs - 1, int(rng.integers(fl, 6 * fl + 8))}
    return sorted(l for l in L if l >= 0)


def _run_case(case, rec, mon=None):
    own = mon is None
    if own:
        monitor.detach_all()
        mon = StftMonitor(rec)
        mon.attach()
    mon.case = case
    rng = rng_for(case["seed"], "C02", case["idx"], 1)
    cfg = case["cfg"]
    try:
        comp = gen.build(cfg)
    except Exception as e:
        rec.count("configurations_not_constructible")
        rec.note("not constructible: %r %r" % (e, cfg))
        if own:
            monitor.detach_all()
        return
    if case["idx"] % 10 == 7 and isinstance(cfg, dict) and cfg.get("name") in gen.DOCUMENTED_ORDER:
        # the same configuration with every constructor argument given by position, in the documented order.  (What the arguments
        # mean is what the keyword-built computer above recorded: the monitor's record of the positional one is replaced by it.)
        try:
            c2 = gen.build_positional(cfg)
            compmon.adopt(c2, comp)
            comp = c2
            rec.count("computers_built_with_positional_arguments")
        except Exception as e:
            rec.violation(dict(what="building an STFT computer with positional arguments in the documented order raised %r" % (e,), case=case, check="positional"))
    if case["idx"] % 9 == 4:
        # the computer as a worker process gets it: a deep copy or a pickle round trip - a computer of the same configuration
        from ..common import copied

        way = ("deepcopy", "pickle")[(case["idx"] // 9) % 2]
        try:
            c2 = copied(comp, way)
            compmon.adopt(c2, comp)
            comp = c2
            rec.count("computers_used_through_a_%s" % way)
        except Exception as e:
            mon.v("copying (%s) an STFT computer raised %r" % (way, e), check="copy_raise")
    fl, fs = comp.frame_length, comp.frame_shift
    if fl < 1 or fs < 1 or (fl > 400 and not case.get("realistic")):
        rec.count("configurations_skipped_geometry")
        if own:
            monitor.detach_all()
        return
    Ns = case.get("lengths") or lengths_for(rng, fl, fs)
    k = case.get("n_signals", 4)
    pick = list(rng.choice(Ns, size=min(k, len(Ns)), replace=False)) if not case.get("lengths") else Ns
    for j, N in enumerate(pick):
        kind = str(rng.choice(gen.SIGNAL_KINDS))
        r_dt = rng.random()
        dt = np.float32 if r_dt < 0.12 else np.float16 if r_dt < 0.18 else np.float64  # the result takes the signal's floating type
        if case["idx"] % 5 == 1 and j == int(np.argmax(pick)):
            kind, dt = ("loud_then_quiet", "quiet_then_loud", "click")[(case["idx"] // 5) % 3], np.float64  # 120 dB of dynamic range within one recording
            rec.count("recordings_with_120dB_dynamic_range")
        x = gen.signal(rng, int(N), kind, dt, views=True)
        x.setflags(write=False)
        if case["idx"] % 4 == 2 and j == len(pick) - 1 and N >= fl:
            # first a call that fails half way: a signal of a type the transform refuses (complex samples, Python objects) raises from
            # inside the computation.  A call that raised has computed nothing and has left nothing behind for the next one
            for bad in (x.astype(np.complex128), x.astype(object)):
                try:
                    comp.compute_full(bad)
                    rec.count("refused_signal_types_accepted")
                except Exception:
                    rec.count("compute_full_calls_that_raised_before_the_judged_one")
        try:
            if j % 5 == 4:
                with monitor.strict_settings():  # settings a user may choose: FP division by zero raises, UserWarnings are errors
                    comp.compute_full(x)
                rec.count("calls_under_strict_process_settings")
            elif j % 3 == 2:
                comp.compute_full(signal=x)  # the same call spelled with the keyword
            else:
                comp.compute_full(x)
        except Exception:
            pass
    if case["idx"] % 3 == 0 and len(pick):
        # two more recordings of one length and type (fixed-length segments): the matrices the caller got before stay what they were
        N = int(max(pick))
        for _ in range(2):
            x = gen.signal(rng, N, "noise" if "noise" in gen.SIGNAL_KINDS else str(rng.choice(gen.SIGNAL_KINDS)), np.float64)
            x.setflags(write=False)
            try:
                comp.compute_full(x)
            except Exception:
                pass
        rec.count("computers_given_several_recordings_of_one_length")
    rec.sample({"cfg": cfg, "fl": int(fl), "fs": int(fs), "lengths": [int(n) for n in pick]})
    if own:
        monitor.report(rec)
        monitor.detach_all()


def run_case(case, rec, mon=None):
    """LOG_FLOOR_VALUE is a configuration value the statement refers to: a share of the cases runs with it changed after import"""
    from ..common import config_value

    floor = case.get("log_floor")
    if floor is not None:
        rec.count("cases_with_log_floor_" + repr(floor))
    with config_value("LOG_FLOOR_VALUE", floor):
        _run_case(case, rec, mon)


def make_cfg(seed, idx):
    rng = rng_for(seed, "C02", idx, 0)
    r = rng.random()
    if idx % 8 == 3:
        kinds = ("vfrealcos",)  # user-defined real bank with response on the 0 Hz / Nyquist bins
    elif r < 0.55:
        kinds = ("gabor", "gammatone")  # complex banks: the mirrored / wrapping branch
    elif r < 0.7:
        kinds = ("tri", "fbank")
    else:
        kinds = ("tri", "fbank", "gabor", "gammatone")
    bank = gen.bank_cfg(rng, kinds=kinds)
    cfg = gen.stft_cfg(rng, bank=bank, allow_fs_gt_fl=bool(rng.random() < 0.12))
    if idx % 11 == 6:
        cfg["window_function"] = "vfwelch"  # a window written by a user against the documented interface (vf/userbank.py)
    return cfg


def plan(tier, seed):
    n = 4000 if tier == "quick" else 60000
    nsh = 16
    specs = [{"a": a, "b": b, "seed": seed} for a, b in split(n, nsh)]
    for j, cfg in enumerate(c for c in gen.realistic_cfgs() if c["name"] == "stft"):
        specs.append({"realistic": cfg, "idx": 10 ** 6 + j, "seed": seed, "n_signals": 3 if tier == "quick" else 12})
    return specs


def run_shard(spec, rec):
    if "suite" in spec:
        from .. import suite

        return suite.run(__name__.rsplit(".", 1)[-1], spec, rec)
    import pydrobert.speech.compute as _sut

    sanit.install([_sut])  # poison-fill sanitizer: np.empty results are pre-filled with NaN while this shard runs
    mon = StftMonitor(rec)
    mon.attach()
    if "realistic" in spec:
        rec.count("realistic_configurations")
        run_case({"idx": spec["idx"], "seed": spec["seed"], "cfg": spec["realistic"], "n_signals": spec["n_signals"], "realistic": True}, rec, mon)
        monitor.report(rec)
        monitor.detach_all()
        return
    for i in range(spec["a"], spec["b"]):
        run_case({"idx": i, "seed": spec["seed"], "cfg": make_cfg(spec["seed"], i), "log_floor": [None, None, None, None, 1e-3, None, 1e-9, None, None, None, None, 1e-3, None, 1e-60][i % 14]}, rec, mon)
    rec.count("sanitizer_np_empty_intercepted", sanit.COUNTS["empty"] + sanit.COUNTS["empty_like"])
    sanit.uninstall([_sut])
    monitor.report(rec)
    monitor.detach_all()


def finish(rec):
    monitor.require(rec, ["ShortTimeFourierTransformFrameComputer.compute_full"])
    need = ["D_mod_4_eq_0", "D_mod_4_eq_1", "D_mod_4_eq_2", "D_mod_4_eq_3", "complex_filter_spans_both_sides_of_half", "complex_filter_wraps_past_D",
            "default_frame_length_computers", "empty_results", "dft_size_observed"]
    for k in need:
        if not rec.counters[k]:
            rec.inconc("class %s never observed" % k)


def classify(w):
    # D4: kaldi_shift with frame_shift//2 > frame_length//2 -> negative left padding -> ValueError from np.pad
    if w.get("check") == "raise" and w.get("kaldi") and w.get("style") == "centered" and w.get("exc") == "ValueError" \
            and w.get("fs", 0) // 2 > w.get("fl", 0) // 2 and w.get("N", 0) >= w.get("fl", 0) // 2 + 1:
        return "kaldi-shift-negative-left-pad"
    return None
