"""C14 - PyTorch modules compute what their NumPy counterparts compute.

Monitor: a *global forward hook* (torch.nn.modules.module.register_module_forward_hook -
torch's own runtime-monitoring interface) observes every eager forward() of the five
modules; a hook on the from_* factory class methods remembers which NumPy object each
module was built from.  For every observed call the NumPy object is run on the same input
and the outputs are compared (shape strictly, values to the working precision).  PyTorchDither
is checked through seed identities; TorchScript (script and trace) modules are compared with
their eager originals.
"""
import weakref

import numpy as np

from .. import gen, monitor
from ..common import rng_for, split
from ..oracle.stft_ref import compare_features

LEVEL = "exploration"
TECHNIQUE = "runtime monitor via torch global forward hooks + factory hooks: every module forward is replayed on the NumPy object it was built from; TorchScript vs eager differential"
RULE = (
    "STFT modules over the C02 configuration generator (complex banks, include_energy, both styles, kaldi_shift, all D mod 4), float32 parameters (default) and "
    "float64 parameters, signals with N >= frame_length (values) and N < frame_length//2+1 (empty shape); Preemphasize / post-processor wrappers (Standardize, "
    "Deltas, Stack) / SI wrapper (float32 and float64, beyond one DFT block) against the NumPy objects; Dither seed identities and moments; scripted and traced "
    "modules vs eager; non-trivial = complex bank or include_energy or scripted module, with >= 1 frame; distinct by (configuration, dtype, N)"
)
ASSUMPTIONS = [
    "working precision: float32 parameters/inputs 1e-4 relative + 1e-6 S in the linear domain; float64 parameters and inputs 1e-9 / 1e-12; plus the rounding floor of a DFT at that precision (64 eps max|x| per bin)",
    "lengths with frame_length//2+1 <= N < frame_length are not asserted (the statement covers N >= frame_length and N < frame_length//2+1)",
    "configurations for which the NumPy computer itself raises (the C02 known finding) have no oracle and are skipped",
]
ANCHOR_FILES = ("src/pydrobert/speech/torch.py", "src/pydrobert/speech/compute.py")
EXHAUSTIVE_PARTS = []
LEVEL_TEXT = (
    "Every eager forward() of the workload (400 quick / 8000 thorough STFT configurations x several signals, plus the wrapper modules) is observed through "
    "torch's forward hooks and replayed on the originating NumPy object; scripted/traced modules are compared with eager ones. Sampled exploration."
)
LEVEL_NOTE = "Trusts the NumPy computer as reference (tied to an independent definition by C02/C03) and torch's own tensor<->ndarray conversion."


class Mon:
    def __init__(self, rec):
        self.rec = rec
        self.case = None
        self.origin = weakref.WeakKeyDictionary()
        self.handle = None
        self.active = True

    def attach(self):
        import torch
        from pydrobert.speech import torch as T

        def mk(attr):
            def post(c):
                if c.exc is None and c.result is not None:
                    src = c.args[1] if len(c.args) > 1 else None
                    self.origin[c.result] = src
                elif c.exc is not None:
                    self.factory_raised(attr, c)
            return post

        for cls, attr in ((T.PyTorchSTFTFrameComputer, "from_stft_frame_computer"), (T.PyTorchSIFrameComputer, "from_si_frame_computer"),
                          (T.PyTorchPreemphasize, "from_preemphasize"), (T.PyTorchPostProcessorWrapper, "from_postprocessor"), (T.PyTorchDither, "from_dither")):
            monitor.attach(cls, attr, post=mk(attr), reentrant=True)
        self.handle = torch.nn.modules.module.register_module_forward_hook(self.hook)

    def detach(self):
        if self.handle is not None:
            self.handle.remove()

    def v(self, what, **kw):
        self.rec.violation(dict(what=what, case=self.case, **kw))

    def factory_raised(self, attr, c):
        src = c.args[1] if len(c.args) > 1 else None
        self.rec.ev()
        self.rec.count("factory_raised")
        empty = None
        if attr == "from_stft_frame_computer" and src is not None:
            try:
                empty = [i for i in range(src.bank.num_filts) if len(src.bank.get_truncated_response(i, self.dft(src))[1]) == 0]
            except Exception:
                empty = None
        self.v("%s raised %r for a valid NumPy object" % (attr, c.exc), check="factory_raise", exc=repr(c.exc), empty_filters=empty,
               fl=int(getattr(src, "frame_length", -1)), fs=int(getattr(src, "frame_shift", -1)))

    @staticmethod
    def dft(comp):
        from .. import compmon

        inf = compmon.info(comp)
        if inf and len(inf["trunc_widths"]) == 1:
            return inf["trunc_widths"][0]
        return comp.frame_length

    def hook(self, module, inputs, output):
        if not self.active:
            return
        from pydrobert.speech import torch as T

        try:
            if isinstance(module, T.PyTorchSTFTFrameComputer):
                self.check_stft(module, inputs[0], output)
            elif isinstance(module, T.PyTorchSIFrameComputer):
                self.check_delegate(module, inputs[0], output, "si")
            elif isinstance(module, T.PyTorchPostProcessorWrapper):
                self.check_delegate(module, inputs[0], output, "post")
            elif isinstance(module, T.PyTorchPreemphasize):
                self.check_preemph(module, inputs[0], output)
        except Exception:
            import traceback

            self.rec.inconc("harness fault in forward hook: %s" % traceback.format_exc().strip().splitlines()[-1])
            self.rec.note(traceback.format_exc())

    def check_stft(self, module, x, out):
        import torch
        from pydrobert.speech import config

        comp = self.origin.get(module)
        if comp is None:
            self.rec.count("stft_forward_without_known_origin")
            return
        xn = x.detach().cpu().numpy()
        N, fl, fs = len(xn), comp.frame_length, comp.frame_shift
        if not (N >= fl or N < fl // 2 + 1):
            self.rec.count("stft_forward_length_not_asserted")
            return
        self.active = False
        try:
            with monitor.quiet():
                want = comp.compute_full(xn)
        except Exception:
            self.rec.count("stft_numpy_raised_no_oracle")
            return
        finally:
            self.active = True
        self.rec.ev()
        self.rec.count("stft_forward_compared")
        got = out.detach().cpu().numpy()
        p64 = module.filters[0].dtype == torch.complex128 and (module.window is None or module.window.dtype == torch.float64) and x.dtype == torch.float64
        info = dict(op="stft", N=N, fl=int(fl), fs=int(fs), D=int(module.dft_size), style="centered" if module.centered else "causal", kaldi=bool(module.kaldi_shift),
                    energy=bool(module.include_energy), use_log=bool(module.use_log), use_power=bool(module.use_power), is_real=bool(module.is_real), precision="f64" if p64 else "f32",
                    bank=type(comp.bank).__name__)
        if got.shape != want.shape:
            self.v("torch STFT module returned shape %r, NumPy computer %r (N=%d fl=%d fs=%d)" % (got.shape, want.shape, N, fl, fs), check="shape", **info)
            return
        rtol, atol = (1e-9, 1e-12) if p64 else (1e-4, 1e-6)
        # rounding floor of the transform at the working precision: every bin of the DFT of a frame carries an error
        # of about delta = 64 eps max|x| (windows sum to ~1), whatever the size of the bins a filter actually sees
        eps = np.finfo(np.float64).eps if p64 else np.finfo(np.float32).eps
        delta = 64 * eps * (float(np.max(np.abs(xn))) if N else 0.0)
        D = int(module.dft_size)
        w64 = want.astype(np.float64)
        lin = np.exp(w64) if module.use_log else w64
        extra = (2 * np.sqrt(np.abs(lin) * D) * delta + D * delta ** 2) if module.use_power else D * delta
        ok, i, detail = compare_features(got.astype(np.float64), w64, bool(module.use_log), config.LOG_FLOOR_VALUE, rtol, atol, 0.0, extra)
        if not ok:
            self.v("torch STFT module differs from the NumPy computer at %r: %s (N=%d fl=%d fs=%d D=%d %s %s)" % (i, detail, N, fl, fs, module.dft_size, info["style"], info["bank"]),
                   check="value", **info)
        self.rec.count("stft_D_mod_4_eq_%d" % (module.dft_size % 4))
        self.rec.count("stft_precision_" + info["precision"])
        if want.shape[0] == 0:
            self.rec.count("stft_empty_results")
        elif not module.is_real or module.include_energy:
            self.rec.nt((repr(self.case.get("cfg")) if self.case else id(comp), N, info["precision"]))

    def check_delegate(self, module, x, out, kind):
        import torch

        obj = module.si_frame_computer if kind == "si" else module.postprocessor
        if kind == "post" and self.origin.get(module) is not None:
            obj = self.origin[module]  # the post-processor the wrapper was made for, as it is now ("merely ... runs apply")
        xn = x.detach().cpu().numpy()
        self.active = False
        try:
            with monitor.quiet():
                want = obj.compute_full(xn) if kind == "si" else obj.apply(xn)
        except Exception:
            self.rec.count("%s_numpy_raised_no_oracle" % kind)
            return
        finally:
            self.active = True
        self.rec.ev()
        self.rec.count("%s_forward_compared" % kind)
        want = torch.tensor(want, dtype=x.dtype)
        if out.shape != want.shape or out.dtype != x.dtype:
            self.v("%s wrapper returned %r %s, NumPy object %r" % (kind, tuple(out.shape), out.dtype, tuple(want.shape)), check="shape", op=kind, obj=type(obj).__name__)
        elif not torch.equal(out, want) and not torch.allclose(out, want, rtol=1e-6 if x.dtype == torch.float32 else 1e-12, atol=0, equal_nan=True):
            self.v("%s wrapper output differs from %s on the same input" % (kind, type(obj).__name__), check="value", op=kind, obj=type(obj).__name__)
        self.rec.nt((kind, type(obj).__name__, tuple(x.shape), str(x.dtype), float(x.double().sum()) if x.numel() else 0.0))
        self.rec.count("%s_dtype_%s" % (kind, str(x.dtype).split(".")[-1]))

    def check_preemph(self, module, x, out):
        from pydrobert.speech.pre import Preemphasize

        xn = x.detach().cpu().numpy()
        if xn.ndim != 1:
            return
        self.active = False
        try:
            with monitor.quiet():
                src = self.origin.get(module)  # the NumPy object the module was made from (when it came from the factory method)
                want = (src if src is not None else Preemphasize(module.coeff)).apply(xn)
        finally:
            self.active = True
        self.rec.ev()
        self.rec.count("preemph_forward_compared")
        got = out.detach().cpu().numpy()
        tol = 1e-5 if xn.dtype == np.float32 else 1e-12
        if got.shape != want.shape or not np.all(np.abs(got - want) <= tol * (np.abs(want) + np.abs(xn) + 1e-30)):
            self.v("PyTorchPreemphasize(%r) differs from Preemphasize.apply (len %d, %s)" % (module.coeff, len(xn), xn.dtype), check="value", op="preemph")
        if len(xn) >= 2:
            self.rec.nt(("preemph", module.coeff, len(xn), str(xn.dtype)))


def _tview(rng, t, p=0.25):
    """the same tensor values as a view into other storage, with probability p: a slice of a longer tensor (storage
    offset), every other element of a longer tensor, or one column of a matrix (non-unit stride)"""
    import torch

    if t.ndim != 1 or t.numel() == 0 or rng.random() >= p:
        return t
    n = t.numel()
    lay = int(rng.integers(3))
    if lay == 0:
        k = int(rng.integers(1, 50))
        big = torch.full((n + k + 7,), 7.0, dtype=t.dtype)
        v = big[k:k + n]
    elif lay == 1:
        big = torch.full((2 * n,), 7.0, dtype=t.dtype)
        v = big[::2]
    else:
        big = torch.full((n, 3), 7.0, dtype=t.dtype)
        v = big[:, 1]
    v.copy_(t)
    return v


_UNDER_F64 = False


def run_case(case, rec, mon=None):
    import torch
    from pydrobert.speech import torch as T, pre as PRE, post as POST
    from .. import compmon

    own = mon is None
    if own:
        monitor.detach_all()
        mon = Mon(rec)
        compmon.attach()
        mon.attach()
    mon.case = case
    rng = rng_for(case["seed"], "C14", case["idx"], 1)
    kind = case["kind"]
    torch.set_num_threads(1)
    global _UNDER_F64
    if kind in ("stft", "si") and case["idx"] % 8 == 2 and not _UNDER_F64 and hasattr(torch, "set_float32_matmul_precision"):
        # another process-wide setting a training program commonly changes: the internal precision of float32 matrix products
        old_prec = torch.get_float32_matmul_precision()
        torch.set_float32_matmul_precision("medium")
        rec.count("cases_under_float32_matmul_precision_medium")
        _UNDER_F64 = True
        try:
            return run_case(case, rec, mon)
        finally:
            _UNDER_F64 = False
            torch.set_float32_matmul_precision(old_prec)
            if own:
                monitor.report(rec)
                monitor.detach_all()
    if kind == "stft" and case["idx"] % 8 == 5 and not _UNDER_F64:
        # a process-wide setting a user may change: the default floating type of new tensors
        old_default = torch.get_default_dtype()
        torch.set_default_dtype(torch.float64)
        rec.count("cases_under_torch_default_dtype_float64")
        _UNDER_F64 = True
        try:
            return run_case(case, rec, mon)
        finally:
            _UNDER_F64 = False
            torch.set_default_dtype(old_default)
            if own:
                monitor.report(rec)
                monitor.detach_all()
    if kind == "stft":
        cfg = case["cfg"]
        try:
            comp = gen.build(cfg)
        except Exception:
            rec.count("configurations_not_constructible")
            comp = None
        if comp is not None and comp.frame_length <= 400 and comp.frame_length >= 1 and comp.frame_shift >= 1:
            fl, fs = comp.frame_length, comp.frame_shift
            for prec in ("f32", "f64"):
                try:
                    if prec == "f32":
                        mod = T.PyTorchSTFTFrameComputer.from_stft_frame_computer(comp)
                    else:
                        mod = T.PyTorchSTFTFrameComputer.from_stft_frame_computer(comp, torch.cdouble, torch.double)
                except Exception:
                    continue  # recorded by the factory hook
                if case["idx"] % 4 == 2:
                    # the module as a DataLoader worker or a checkpoint gives it back: a deep copy, a pickle round trip (torch.save /
                    # torch.load of the whole module), or a new module loaded from the first one's state_dict
                    import copy as _copy
                    import io as _io

                    way = ("deepcopy", "pickle", "state_dict")[(case["idx"] // 4) % 3]
                    try:
                        if way == "deepcopy":
                            m2 = _copy.deepcopy(mod)
                        elif way == "pickle":
                            b = _io.BytesIO()
                            torch.save(mod, b)
                            b.seek(0)
                            m2 = torch.load(b, weights_only=False)
                        else:
                            m2 = T.PyTorchSTFTFrameComputer.from_stft_frame_computer(comp) if prec == "f32" else T.PyTorchSTFTFrameComputer.from_stft_frame_computer(comp, torch.cdouble, torch.double)
                            m2.load_state_dict(mod.state_dict())
                        mon.origin[m2] = mon.origin.get(mod)
                        mod = m2
                        rec.count("stft_modules_used_through_a_%s" % way)
                    except Exception as e:
                        mon.v("a %s of the torch STFT module raised %r" % (way, e), check="module_copy", op="stft", fl=int(fl), fs=int(fs))
                Ns = sorted({0, max(0, fl // 2 - 1), fl // 2, fl, fl + 1, fl + fs, 3 * fl + int(rng.integers(0, fs + 1)), int(rng.integers(fl, 6 * fl + 10))})
                # the last length with k frames and the first with k + 1 (with sparse frames, fs > fl, the tail may hold
                # room for a frame that is not due)
                Ns = sorted(set(Ns) | {max(0, k * fs + fs - fs // 2 - 1 + j) for k in (2, 3) for j in (-2, 0, 1)} | {3 * fs - 1, 3 * fs})
                # long enough for a frame (>= fl // 2 + 1) yet rounding to no frame at all (sparse frames: fs > 2 N)
                Ns = sorted(set(Ns) | {fl // 2 + 1, max(fl // 2 + 1, fs - fs // 2 - 1)})
                if case.get("many_frames"):
                    Ns = sorted(set(Ns) | {k * fs + fs // 2 for k in case["many_frames"]})
                    rec.count("recordings_of_thousands_of_frames", len(case["many_frames"]))
                for N in Ns:
                    x = gen.signal(rng, N, None, np.float32 if (prec == "f32" and rng.random() < 0.5) else np.float64)
                    with torch.no_grad():
                        try:
                            mod(_tview(rng, torch.from_numpy(x)))
                        except Exception as e:
                            if N >= fl or N < fl // 2 + 1:
                                try:
                                    comp.compute_full(x)
                                    numpy_ok = True
                                except Exception:
                                    numpy_ok = False
                                if numpy_ok:
                                    mon.v("torch STFT module raised %r where the NumPy computer returns (N=%d fl=%d fs=%d)" % (e, N, fl, fs), check="raise", op="stft", N=N, fl=int(fl),
                                          fs=int(fs), kaldi=bool(cfg.get("kaldi_shift")))
            rec.sample({"cfg": cfg, "fl": int(fl), "fs": int(fs)})
    elif kind == "script":
        cfg = case["cfg"]
        try:
            comp = gen.build(cfg)
            mod = T.PyTorchSTFTFrameComputer.from_stft_frame_computer(comp)
        except Exception:
            comp = None
        if comp is not None and comp.frame_length <= 200:
            fl = comp.frame_length
            mon.active = False
            try:
                from ..common import config_value

                # the module is compiled while config.LOG_FLOOR_VALUE holds another value for a moment (a program that extracts one feature
                # set with a higher floor); at call time everything is back at the default - a compiled module is the module
                with config_value("LOG_FLOOR_VALUE", 1e-2):
                    scripted = torch.jit.script(mod)
                    ex = torch.from_numpy(gen.signal(rng, 2 * fl + 3, "noise"))
                    traced = torch.jit.trace(mod, (ex,), check_trace=False)
                rec.count("modules_compiled_while_the_log_floor_was_changed")
                for jN, N in enumerate((fl, 3 * fl + 1, max(0, fl // 2 - 1), 5 * fl, 3 * fl + 2, 4 * fl)):
                    x = torch.from_numpy(gen.signal(rng, N, "noise" if jN < 4 else ("zeros", "noise_small")[jN - 4]))  # (silence and a very quiet recording: the floor decides)
                    with torch.no_grad():
                        e = mod(x)
                        for name, m in (("scripted", scripted), ("traced", traced)):
                            try:
                                s = m(x)
                            except Exception as ex2:
                                mon.v("%s STFT module raised %r where the eager one returns (N=%d fl=%d)" % (name, ex2, N, fl), check="script_raise", op=name)
                                continue
                            rec.ev()
                            rec.count("script_vs_eager_compared")
                            if s.shape != e.shape or not torch.allclose(s, e, rtol=1e-6, atol=1e-9, equal_nan=True):
                                mon.v("%s STFT module differs from the eager one (N=%d fl=%d)" % (name, N, fl), check="script_value", op=name)
                            if e.shape[0]:
                                rec.nt((name, repr(cfg), N))
            except Exception as e:
                mon.v("torch.jit.script / trace of the STFT module failed: %r" % (e,), check="script_fail", op="script")
            finally:
                mon.active = True
    elif kind == "wrappers":
        for j in range(case["n"]):
            n = int(rng.choice([0, 1, 2, 5, int(rng.integers(6, 400))]))
            dt = torch.float32 if rng.random() < 0.5 else torch.float64
            x = _tview(rng, torch.from_numpy(gen.signal(rng, n, None)).to(dt))
            T.PyTorchPreemphasize.from_preemphasize(PRE.Preemphasize(float(rng.choice([0.97, 0.0, 1.0, float(rng.uniform(-1, 1))]))))(x)
            frames, F = int(rng.integers(1, 40)), int(rng.integers(1, 8))
            feats = torch.from_numpy(rng.standard_normal((frames, F)) * 3 + 1).to(dt)
            which = int(rng.integers(3))
            if which == 0:
                st = POST.Standardize()
                st.accumulate(rng.standard_normal((50, F)) * 2 - 1)
                pp = st
            elif which == 1:
                pp = POST.Deltas(int(rng.integers(0, 3)), context_window=int(rng.integers(1, 4)))
            else:
                pp = POST.Stack(int(rng.integers(1, 4)), pad_mode=None if rng.random() < 0.5 else "edge")
            try:
                wrapped = T.PyTorchPostProcessorWrapper.from_postprocessor(pp)
                if which == 0 and j % 2 == 0:
                    # the wrapped object goes on collecting statistics after the wrapper was made (and once more between two calls)
                    pp.accumulate(rng.standard_normal((30, F)) * 4 + 2)
                    rec.count("wrapped_standardize_accumulates_after_wrapping")
                    wrapped(feats)
                    pp.accumulate(rng.standard_normal((10, F)) - 3)
                wrapped(feats)
            except Exception:
                pass
            if j % 4 == 1:
                # a Standardize without statistics when it is wrapped; they arrive afterwards
                st2 = POST.Standardize()
                try:
                    w2 = T.PyTorchPostProcessorWrapper.from_postprocessor(st2)
                    st2.accumulate(rng.standard_normal((40, F)) * 2 + 1)
                    w2(feats)
                except Exception:
                    pass
        rec.sample({"kind": kind, "n": case["n"]})
    elif kind == "si":
        from .C03 import make_cfg as si_make

        cfg = si_make(case["seed"], 700000 + case["idx"])
        try:
            comp = gen.build(cfg)
            inf = compmon.info(comp)
            width = inf["ir_widths"][0] if inf and len(inf["ir_widths"]) == 1 else 64
        except Exception:
            comp = None
        if comp is not None and width <= 512:
            mod = T.PyTorchSIFrameComputer.from_si_frame_computer(comp)
            fl_, fs_ = int(comp.frame_length), int(comp.frame_shift)
            # (also lengths between half a shift and half the - very long - frame: the short-integration computer frames those too)
            for N in sorted({0, 1, fs_ // 2, fs_, fs_ + 1, max(1, fl_ // 2 - 1), fl_ // 2, fl_ // 2 + 1, fl_, width + 3, 2 * width + 1}):
                for dt in (torch.float32, torch.float64):
                    x = _tview(rng, torch.from_numpy(gen.signal(rng, N, None)).to(dt))
                    try:
                        mod(x)
                    except Exception as e:
                        mon.v("PyTorchSIFrameComputer raised %r (N=%d, %s)" % (e, N, dt), check="raise", op="si", N=N)
            rec.sample({"kind": kind, "cfg": cfg})
    elif kind == "dither":
        for _ in range(case["n"]):
            coeff = float(np.exp(rng.uniform(-3, 2)))
            n = int(rng.integers(1, 300))
            s = int(rng.integers(0, 2 ** 31 - 1))
            d = T.PyTorchDither.from_dither(PRE.Dither(coeff))
            x = torch.from_numpy(rng.standard_normal(n) * 10)
            torch.manual_seed(s)
            a = d(x)
            torch.manual_seed(s)
            b = d(x)
            torch.manual_seed(s)
            z = d(torch.zeros(n, dtype=torch.float64))
            rec.ev()
            rec.count("dither_seed_checks")
            rec.nt(("dither", coeff, n, s))
            if not torch.equal(a, b):
                mon.v("PyTorchDither is not reproducible under torch.manual_seed(%d)" % s, check="dither_seed", op="dither")
            if not torch.allclose(a - x, z, rtol=0, atol=1e-9 * (10 + coeff)):
                mon.v("PyTorchDither noise depends on the input", check="dither_independence", op="dither")
        N = 200000 if case["n"] < 100 else 1000000
        for coeff, mode in ((1.0, "train"), (0.05, "eval"), (20.0, "scripted-eval"), (3.0, "eval-in-sequential")):
            torch.manual_seed(int(rng.integers(0, 2 ** 31 - 1)))
            dmod = T.PyTorchDither(coeff)
            # dithering is a pre-processing step, not a regulariser: it applies in every module mode
            if mode == "eval":
                dmod = dmod.eval()
            elif mode == "scripted-eval":
                mon.active = False
                try:
                    dmod = torch.jit.script(dmod).eval()
                finally:
                    mon.active = True
            elif mode == "eval-in-sequential":
                dmod = torch.nn.Sequential(dmod).eval()
            rec.count("dither_mode_" + mode)
            nz = dmod(torch.zeros(N, dtype=torch.float64)).numpy()
            rec.count("dither_moment_checks")
            if not (abs(nz.mean()) <= 6 * coeff / np.sqrt(N) and abs(nz.std() - coeff) <= 6 * coeff / np.sqrt(2 * N)):
                mon.v("PyTorchDither(%r) [%s] noise mean %g std %g over %d samples" % (coeff, mode, nz.mean(), nz.std(), N), check="dither_moments", op="dither")
    if own:
        monitor.report(rec)
        mon.detach()
        monitor.detach_all()


def plan(tier, seed):
    from .C02 import make_cfg

    q = tier == "quick"
    cases = []
    for i in range(400 if q else 8000):
        cases.append({"kind": "stft", "idx": i, "seed": seed, "cfg": make_cfg(seed, 300000 + i)})
    for i in range(6 if q else 40):
        # directed: sparse frames (a shift of two to four frame lengths), with and without the energy coefficient
        rng = rng_for(seed, "C14", 500000 + i, 0)
        fl = int(rng.choice([4, 7, 8, 16, 25]))
        cfg = gen.stft_cfg(rng, fl=fl, fs=int(fl * rng.choice([2, 3, 4]) + rng.integers(0, 3)))
        cfg["include_energy"] = bool(i % 2 == 0)
        cases.append({"kind": "stft", "idx": 500000 + i, "seed": seed, "cfg": cfg})
    for i in range(2 if q else 8):
        # directed: recordings of several thousand frames (a hop of two to four samples): beyond any plausible block of frames
        rng = rng_for(seed, "C14", 600000 + i, 0)
        fs = int(rng.choice([2, 3, 4]))
        cfg = gen.stft_cfg(rng, fl=int(rng.choice([6, 8, 9])), fs=fs)
        cfg["include_energy"] = bool(i % 2)
        cases.append({"kind": "stft", "idx": 600000 + i, "seed": seed, "cfg": cfg, "many_frames": [4096, 4097, 4500 + 37 * i, 8193 + i]})
    for i in range(3 if q else 30):
        cases.append({"kind": "script", "idx": i, "seed": seed, "cfg": make_cfg(seed, 400000 + i)})
    for i in range(8 if q else 80):
        cases.append({"kind": "wrappers", "idx": i, "seed": seed, "n": 40})
        cases.append({"kind": "si", "idx": i, "seed": seed})
    for i in range(2 if q else 8):
        cases.append({"kind": "dither", "idx": i, "seed": seed, "n": 60 if q else 200})
    nsh = 16
    return [{"cases": cases[i::nsh]} for i in range(nsh) if cases[i::nsh]]


def run_shard(spec, rec):
    from .. import compmon

    mon = Mon(rec)
    compmon.attach()
    mon.attach()
    try:
        for case in spec["cases"]:
            run_case(case, rec, mon)
    finally:
        mon.detach()
    monitor.report(rec)
    monitor.detach_all()


def finish(rec):
    need = ["stft_forward_compared", "stft_precision_f32", "stft_precision_f64", "stft_empty_results", "stft_D_mod_4_eq_0", "stft_D_mod_4_eq_1", "stft_D_mod_4_eq_2",
            "stft_D_mod_4_eq_3", "si_forward_compared", "si_dtype_float32", "si_dtype_float64", "post_forward_compared", "preemph_forward_compared", "dither_seed_checks",
            "dither_moment_checks", "script_vs_eager_compared"]
    for k in need:
        if not rec.counters[k]:
            rec.inconc("class %s never observed" % k)


def classify(w):
    # D23: the port refuses a computer one of whose filters owns no DFT bin (frame too short for that filter)
    if w.get("check") == "factory_raise" and "is empty" in str(w.get("exc", "")) and w.get("empty_filters"):
        return "torch-port-rejects-empty-truncated-filter"
    return None
