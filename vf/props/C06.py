"""C06 - frequency-domain representations of a filter agree.

Monitor: post-hook on get_truncated_response of all four bank classes - so every STFT
computer constructed anywhere is checked at the width it really uses - which rebuilds the
full response by the documented recipes and compares it with get_frequency_response
(full and half=True), and checks index ranges, Hermitian symmetry, analyticity, finiteness.
"""
import numpy as np

from .. import filtgen, gen, monitor
from ..common import rng_for, split
from ..oracle.stft_ref import rebuild_full

OPTIMIZED_SHARDS = 1  # shards run once more in an interpreter started with -O (vf/run.py)
LEVEL = "exploration"
TECHNIQUE = "runtime monitor on get_truncated_response: documented rebuild recipe vs get_frequency_response (full / half), index-range, symmetry and finiteness invariants; ambient-settings monitor (stateless calls repeated under -W error and np.errstate raise)"
RULE = (
    "triples (bank, filter, width): banks from the C05 generator (all classes, scales, rates, flags), first/last/random filter, widths 2,3,4,5, random "
    "6-40, 40-600, 600-4000, frame lengths and their next powers of two; also widths requested by randomly built STFT computers; every seventh bank through a deep copy / pickle round trip / shallow copy, every fourth asked in turn with a counterpart bank (real / analytic twin), directed whole-period Gabor banks direct and copied; non-trivial = non-empty "
    "truncated response that wraps (bin_idx+len > width), takes the whole-period fallback, or has width smaller than the bandwidth in bins; distinct by "
    "(bank configuration, filter, width)"
)
ASSUMPTIONS = [
    "tolerance: rebuilt vs full <= 2 x EFFECTIVE_SUPPORT_THRESHOLD; triangular / Fbank <= 4 ulp (the two methods evaluate the same formula with scalar vs vector sqrt)",
    "half=True must equal the leading bins of the full response exactly (same code path per bin); Hermitian symmetry to 1e-12",
]
ANCHOR_FILES = ("src/pydrobert/speech/filters.py",)
EXHAUSTIVE_PARTS = []
SUITE_TESTS = ['tests/test_filters.py', 'tests/test_compute.py']  # the repository's own tests as an extra monitored workload (thorough tier)
LEVEL_TEXT = (
    "Every get_truncated_response call of the run (6e3 quick / 1.5e5 thorough driven triples plus those made by STFT computers under construction) is "
    "checked against the full response through the documented recipes, for odd/even and very small widths. Sampled exploration."
)
LEVEL_NOTE = "Trusts get_frequency_response as the reference representation (C05/C07 tie it to the documented shapes and to the impulse response)."


class Mon:
    def __init__(self, rec):
        from ..history import ResultHistory

        self.rec = rec
        self.case = None
        self.cfg_of = {}
        self.hist = ResultHistory(rec, self.v, keep=6)
        self.last = {}  # (id(bank), filt, width, threshold) -> (weakref, start bin, copy of the truncated response)

    def attach(self):
        from pydrobert.speech import filters as F

        for cls in (F.TriangularOverlappingFilterBank, F.Fbank, F.GaborFilterBank, F.ComplexGammatoneFilterBank):
            monitor.attach(cls, "get_truncated_response", post=self.post, ambient=self.v)

    def v(self, what, **kw):
        self.rec.violation(dict(what=what, case=self.case, **kw))

    def post(self, c):
        from pydrobert.speech import config

        bank = c.self
        kw = dict(zip(("filt_idx", "width"), c.args))
        kw.update(c.kwargs)
        i, W = kw.get("filt_idx"), kw.get("width")
        if not isinstance(W, (int, np.integer)) or W < 2 or not (0 <= i < bank.num_filts):
            self.rec.count("out_of_scope_calls")
            return
        W = int(W)
        name = type(bank).__name__
        thr = config.EFFECTIVE_SUPPORT_THRESHOLD
        self.rec.ev()
        self.rec.count("calls_" + name)
        info = dict(cls=name, filt=int(i), W=W, cfg=self.cfg_of.get(id(bank)))
        if c.exc is not None:
            self.v("%s.get_truncated_response(%d, %d) raised %r" % (name, i, W, c.exc), check="raise", **info)
            return
        try:
            b, tr = c.result
            tr = np.asarray(tr)
        except Exception:
            self.v("%s.get_truncated_response did not return (bin_idx, array)" % name, check="type", **info)
            return
        if not (isinstance(b, (int, np.integer)) and 0 <= b < W):
            self.v("%s start bin %r not in [0, %d)" % (name, b, W), check="start_bin", **info)
            return
        if tr.ndim != 1 or not np.all(np.isfinite(tr)):
            self.v("%s truncated response is not a finite vector" % name, check="finite", **info)
            return
        hl = W // 2 + 1 if W % 2 == 0 else (W + 1) // 2
        if bank.is_real and b + len(tr) > hl:
            self.v("real bank %s: truncated response [%d, %d) leaves the half spectrum of %d bins (width %d)" % (name, b, b + len(tr), hl, W), check="real_half", **info)
            return
        if len(tr) > W and not bank.is_real:
            self.v("%s truncated response of %d bins for width %d" % (name, len(tr), W), check="too_long", **info)
            return
        with monitor.quiet():
            # (the third argument, `half`, by keyword or by position in turn)
            fr_raw = bank.get_frequency_response(i, W) if (i + W) % 2 else bank.get_frequency_response(i, W, False)
            hf_raw = bank.get_frequency_response(i, W, half=True) if (i + W) % 4 < 2 else bank.get_frequency_response(i, W, True)
            fr, hf = np.asarray(fr_raw), np.asarray(hf_raw)
            try:
                full = np.zeros(W, dtype=np.complex128)
                if bank.is_real:
                    full[b:b + len(tr)] = tr
                    full[W - b - len(tr) + 1:W - b + 1] = tr[:None if b else 0:-1].conj()
                else:
                    wrap = min(b + len(tr), W) - b
                    full[b:b + wrap] = tr[:wrap]
                    full[:len(tr) - wrap] = tr[wrap:]
            except Exception as e:
                self.v("%s: the documented rebuild recipe fails for bin_idx=%d len=%d width=%d: %r" % (name, b, len(tr), W, e), check="recipe", **info)
                return
        if fr.shape != (W,) or not np.all(np.isfinite(fr)):
            self.v("%s.get_frequency_response(%d, %d) has shape %r / non-finite values" % (name, i, W, fr.shape), check="finite", **info)
            return
        d = np.abs(full - fr)
        compact = name in ("TriangularOverlappingFilterBank", "Fbank")
        if compact:
            lim = 4 * np.finfo(float).eps * np.maximum(np.abs(fr), 1e-300)
            if np.any(d > lim):
                k = int(np.argmax(d - lim))
                self.v("%s filter %d width %d: rebuilt response differs from the full one at bin %d (%r vs %r)" % (name, i, W, k, full[k], fr[k]), check="rebuild", **info)
        elif d.max() > 2 * thr:
            k = int(np.argmax(d))
            self.v("%s filter %d width %d: rebuilt response differs from the full one by %.3g (> 2 x threshold) at bin %d" % (name, i, W, d.max(), k), check="rebuild", **info)
        if hf.shape != (hl,) or not np.array_equal(hf, fr[:hl]):
            self.v("%s filter %d width %d: half=True response (len %d) is not the leading %d bins of the full one" % (name, i, W, len(hf), hl), check="half", **info)
        if bank.is_real and W > 1:
            herm = np.abs(fr[1:] - np.conj(fr[1:][::-1])).max()
            if herm > 1e-12:
                self.v("real bank %s filter %d width %d: response not Hermitian (%.3g)" % (name, i, W, herm), check="hermitian", **info)
        if compact and bank.is_analytic and np.abs(fr[hl:]).max(initial=0) != 0:
            self.v("analytic %s filter %d width %d: non-zero response on negative frequencies" % (name, i, W), check="analytic", **info)
        wraps = (not bank.is_real) and b + len(tr) > W
        whole = len(tr) == W and b == 0
        lh, rh = bank.supports_hz[i]
        small = W * (rh - lh) / bank.sampling_rate < 1.0
        if len(tr) and (wraps or whole or small):
            self.rec.nt((repr(self.cfg_of.get(id(bank)) or id(bank)), int(i), W))
        if wraps:
            self.rec.count("truncated_wraps_past_width")
        if whole:
            self.rec.count("whole_period_fallback")
        if small:
            self.rec.count("width_smaller_than_bandwidth")
        if W <= 5:
            self.rec.count("widths_2_to_5")
        self.rec.count("width_parity_%d" % (W % 2))
        # ---- histories (after every value has been judged)
        key = (id(bank), int(i), W, thr)
        prev = self.last.get(key)
        if prev is not None and prev[0]() is bank:
            self.rec.count("repeated_calls_same_arguments")
            if prev[1] != b or prev[2].shape != tr.shape or not np.array_equal(prev[2], tr):
                self.v("%s.get_truncated_response(%d, %d) returned something else than the first time" % (name, i, W), check="repeat", **info)
        else:
            import weakref

            self.last[key] = (weakref.ref(bank), b, np.array(tr, copy=True))
            if len(self.last) > 4000:
                self.last.clear()
        if (int(i) + W) % 3 == 0:
            # a client that writes into what it was given (squares a response in place, say): its own business, and the
            # next request for the same response is answered as the first was
            for arr in (c.result[1], fr_raw, hf_raw):
                if isinstance(arr, np.ndarray) and arr.flags.writeable and arr.size:
                    arr[...] = 7.0
            self.rec.count("responses_overwritten_by_the_client")
        # a bank is a fixed set of filters: what earlier calls returned stays what it was, and asking again gives the same
        for lab, arr in (("get_truncated_response", c.result[1]), ("get_frequency_response", fr_raw), ("get_frequency_response(half=True)", hf_raw)):
            self.hist.observe(bank, arr, "%s.%s" % (name, lab), **info)


def _run_case(case, rec, mon=None):
    own = mon is None
    if own:
        monitor.detach_all()
        mon = Mon(rec)
        mon.attach()
    mon.case = case
    rng = rng_for(case["seed"], "C06", case["idx"], 1)
    cfg = case["cfg"]
    if case.get("kind") == "stft":
        try:
            comp = gen.build(cfg)
            mon.cfg_of[id(comp.bank)] = cfg["bank"]
            rec.count("stft_computers_built")
        except Exception as e:
            rec.count("configurations_not_constructible")
    else:
        try:
            sc_ = cfg.get("scaling_function")
            if isinstance(sc_, dict) and sc_.get("name") in ("linear", "octave") and case["idx"] % 2 == 0:
                # the scale handed over as an object that was re-tuned through its documented attributes after it was made (one scale
                # object, adjusted per corpus): the bank is laid out on the scale as it is when the bank is built
                from pydrobert.speech import scales as S_

                if sc_["name"] == "linear":
                    obj_ = S_.LinearScaling(0.0, 1.0)
                    obj_.low_hz, obj_.slope_hz = sc_["low_hz"], sc_["slope_hz"]
                else:
                    obj_ = S_.OctaveScaling(440.0)
                    obj_.low_hz = sc_["low_hz"]
                bank = gen.build_bank(dict(cfg, scaling_function=obj_))
                rec.count("banks_built_on_a_scale_object_retuned_after_construction")
            else:
                bank = gen.build_bank(cfg)
        except Exception as e:
            rec.count("bank_construction_raised")
            bank = None
        if bank is not None and (case["idx"] % 7 == 3 or case.get("copy")):
            # the bank as a worker process / a copied computer sees it (deep copy, pickle round trip, shallow copy): the same filters
            from ..common import copied, COPY_WAYS

            way = case.get("copy") or COPY_WAYS[(case["idx"] // 7) % 3]
            try:
                bank = copied(bank, way)
                rec.count("banks_asked_through_a_%s" % way)
            except Exception as e:
                mon.v("copying (%s) a %s bank raised %r" % (way, cfg["name"], e), check="copy_raise", cfg=cfg)
                bank = None
        partner = None
        if bank is not None and case["idx"] % 4 == 1:
            # a second bank alive in the same process and asked in turn with the first, width by width: for the triangular banks
            # the real / analytic counterpart of the same layout, otherwise another object of the same configuration
            pcfg = dict(cfg, analytic=not cfg.get("analytic", False)) if cfg["name"] in ("tri", "fbank") else dict(cfg)
            try:
                partner = gen.build_bank(pcfg)
                mon.cfg_of[id(partner)] = pcfg
                rec.count("banks_asked_in_turn_with_a_counterpart")
            except Exception:
                partner = None
        if bank is not None and case["idx"] % 3 == 0:
            from ..common import poke

            poke(bank)  # every public attribute read, repr(), ==, hash() before the first response is asked for

            from ..common import scribble


            if case["idx"] % 3 == 0:

                scribble(bank)  # ... and overwrites the arrays the properties handed out (centres in kHz, say)

                rec.count("banks_whose_property_values_were_overwritten_by_the_caller")
            rec.count("banks_inspected_before_the_first_request")
        if bank is not None:
            mon.cfg_of[id(bank)] = cfg
            nf = bank.num_filts
            fl = int(rng.integers(6, 700))
            Ws = [2, 3, 4, 5, int(rng.integers(6, 41)), int(rng.integers(40, 601)), int(rng.integers(600, 4001)), fl, int(2 ** np.ceil(np.log2(fl)))]
            if cfg["name"] == "gabor":
                Ws = [w for w in Ws if w <= 1500] + [int(rng.integers(6, 200))]
            if case.get("widths"):
                Ws = list(case["widths"])
            # widths whose half spectra have as many bins as a full spectrum asked for later (and the other way round)
            w0 = int(rng.integers(6, 300))
            Ws += [2 * (w0 - 1), 2 * w0 - 1, w0, 2 * w0 - 1, 2 * (w0 - 1)]
            for W in Ws:
                for i in sorted({0, nf - 1, int(rng.integers(nf))}):
                    try:
                        if (i + W) % 5 == 1:
                            with monitor.strict_settings():
                                bank.get_truncated_response(i, W)
                            rec.count("calls_under_strict_process_settings")
                        elif (i + W) % 3 == 0:
                            bank.get_truncated_response(filt_idx=i, width=W)
                        else:
                            bank.get_truncated_response(i, W)
                    except Exception:
                        pass
                    if partner is not None:
                        try:
                            partner.get_truncated_response(i, W)
                        except Exception:
                            pass
            # the first widths again, after everything else has been asked
            for W in Ws[:6]:
                try:
                    bank.get_truncated_response(0, W)
                except Exception:
                    pass
            rec.sample({"cfg": cfg, "widths": Ws})
    if len(mon.cfg_of) > 200:
        mon.cfg_of.clear()
    if own:
        monitor.report(rec)
        monitor.detach_all()


def run_case(case, rec, mon=None):
    """the threshold is a configuration value: a share of the cases runs with it changed after import"""
    from ..common import support_threshold

    thr = case.get("threshold")
    if thr is not None:
        rec.count("cases_with_threshold_" + repr(thr))
    with support_threshold(thr):
        _run_case(case, rec, mon)


def plan(tier, seed):
    n = 1600 if tier == "quick" else 24000
    return [{"a": a, "b": b, "seed": seed} for a, b in split(n, 16)]


def run_shard(spec, rec):
    if "suite" in spec:
        from .. import suite

        return suite.run(__name__.rsplit(".", 1)[-1], spec, rec)
    mon = Mon(rec)
    mon.attach()
    if spec["a"] == 0 and not spec.get("optimized"):
        # directed witness of the listed known finding D37 (known_findings.json: C06/single-precision-rate-trips-bank-assertion), so that
        # every run re-observes it - or says that it no longer reproduces
        run_case({"idx": 10 ** 6 + 37, "seed": spec["seed"], "threshold": None, "widths": [606],
                  "cfg": {"name": "tri", "num_filts": 19, "sampling_rate": 22050, "low_hz": 444.4201668492184, "high_hz": 9533.168248959439,
                          "scaling_function": {"name": "octave", "low_hz": 65.30758500838728}, "analytic": True, "_kinds": {"sampling_rate": "np.float32"}}}, rec, mon)
    for i in range(spec["a"], spec["b"]):
        rng = rng_for(spec["seed"], "C06", i, 0)
        if i % 5 == 4:
            run_case({"idx": i, "seed": spec["seed"], "cfg": gen.stft_cfg(rng), "kind": "stft"}, rec, mon)
        else:
            cfg = filtgen.bank_cfg(rng)
            if i % 9 == 5 and "_kinds" not in cfg and float(cfg["sampling_rate"]).is_integer() and cfg["name"] == "tri":
                # the sampling rate as a single-precision NumPy number (read from a float32 header field): the representations of one
                # bank still agree with one another, whatever precision the bank works in.  (Triangular banks only: an Fbank with a float32
                # rate and the default high_hz takes the square root of a rounding-negative number at its top vertex - D37 in DESIGN 8.4,
                # twelfth round; the triangular bank's form of D37, an internal assertion that trips by one bin, is a listed known finding.)
                cfg["_kinds"] = {"sampling_rate": "np.float32"}
                rec.count("banks_with_a_single_precision_sampling_rate")
            run_case({"idx": i, "seed": spec["seed"], "cfg": cfg, "threshold": [None, None, 5e-5, None, 2e-3, None][i % 6]}, rec, mon)
            if i % 10 == 2:
                # the same layout again in this process, as new bank objects under other thresholds
                for thr in (5e-5, 2e-3):
                    run_case({"idx": i, "seed": spec["seed"], "cfg": cfg, "threshold": thr}, rec, mon)
                rec.count("layouts_rebuilt_under_other_thresholds")
        if i % 100 == 7:
            # directed: a triangular bank whose high_hz uses the documented 1 Hz leeway above Nyquist, at widths fine enough
            # (bin spacing <= 1 Hz) for the top of its last filter to matter
            rate = int(rng.choice([2000, 4000]))
            cfg = {"name": "tri", "num_filts": int(rng.integers(2, 6)), "sampling_rate": rate, "low_hz": float(rng.choice([0.0, 50.0])), "high_hz": rate / 2 + float(rng.choice([1.0, 0.75])),
                   "scaling_function": str(rng.choice(["mel", "bark"])), "analytic": bool(i % 200 == 7)}
            run_case({"idx": 10 ** 7 + i, "seed": spec["seed"], "cfg": cfg, "widths": [rate, rate + 1, 2 * rate, 2 * rate + 1, 3 * rate + 1]}, rec, mon)
            rec.count("directed_triangular_banks_inside_the_nyquist_leeway")
        if i % 100 == 57:
            # directed: Gabor banks of one to three filters over the whole band - filters so wide that their support covers the whole
            # period (the documented whole-spectrum fallback) - asked directly and through each kind of copy
            rate = int(rng.choice([8000, 16000]))
            for j, (nf, thr) in enumerate(((1, None), (2, 5e-5), (3, 5e-6))):
                cfg = {"name": "gabor", "num_filts": nf, "sampling_rate": rate, "low_hz": 0.0, "high_hz": rate / 2, "erb": bool((i // 100 + j) % 2),
                       "scaling_function": {"name": "linear", "low_hz": 0.0, "slope_hz": 1.0}}
                for way in (None, "deepcopy", "pickle", "copy"):
                    run_case({"idx": 2 * 10 ** 7 + 10 * i + j, "seed": spec["seed"], "cfg": cfg, "threshold": thr, "copy": way, "widths": [7, 8, 33, 64, 255]}, rec, mon)
            rec.count("directed_whole_period_gabor_banks_direct_and_copied")
    monitor.report(rec)
    monitor.detach_all()


def finish(rec):
    monitor.require(rec, [c + ".get_truncated_response" for c in ("TriangularOverlappingFilterBank", "Fbank", "GaborFilterBank", "ComplexGammatoneFilterBank")])
    for k in ("truncated_wraps_past_width", "whole_period_fallback", "width_smaller_than_bandwidth", "widths_2_to_5", "width_parity_0", "width_parity_1", "stft_computers_built"):
        if not rec.counters[k]:
            rec.inconc("class %s never observed" % k)


def classify(w):
    # D37: a bank whose sampling rate is a single-precision NumPy number does its bin arithmetic in single precision, and the
    # triangular bank's internal consistency assertion (support computed one way, response another) can then trip by one bin
    cfg = w.get("cfg") or {}
    if w.get("check") == "raise" and "AssertionError" in str(w.get("what", "")) and w.get("cls") == "TriangularOverlappingFilterBank" \
            and (cfg.get("_kinds") or {}).get("sampling_rate") == "np.float32":
        return "single-precision-rate-trips-bank-assertion"
    return None
