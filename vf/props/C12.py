"""C12 - uncompressed NIST SPHERE audio decodes exactly.

Monitor: post-hook on util.read_signal.  The driver writes SPHERE files with an independent
writer (vf/oracle/sphere_writer.py) and registers, per path / stream, what it stored; the
monitor compares every sph decode with the registered expectation inside a warnings
recorder: exact samples, shape (n,) / (n, c), G.711 expansion from the bit-field
definition (vf/oracle/g711.py; all 256 codes of both laws), raw codes for a 1-byte dtype,
exactly one warning and only the samples present for truncated data, IOError for bad
headers.  _sphere runs under the poison-fill sanitizer.
"""
import io
import os
import shutil
import tempfile
import warnings

import numpy as np

from .. import monitor, sanit
from ..common import rng_for, split
from ..oracle import g711, sphere_writer as SW

OPTIMIZED_SHARDS = 2  # shards run once more in an interpreter started with -O (vf/run.py)
LEVEL = "exploration"
TECHNIQUE = "runtime monitor on read_signal(sph) against files written by an independent SPHERE writer and a bit-field G.711 model; exhaustive over the 2x256 companding codes; poison-fill sanitizer; ambient-settings monitor (stateless calls repeated under -W error and np.errstate raise)"
RULE = (
    "files: seeded (channels 1-8, sample counts {1, floor(16384/(c*b)) -1..+1, 2x, 3x, 5x that, random up to 40000}, coding pcm16 LE/BE / ulaw / alaw, header "
    "sizes 1024/2048/4096 with extra fields, requested dtype None / 1-byte / int32 / float64, path or stream, truncation at a frame boundary or inside a frame); "
    "all 256 codes x 2 laws through files; malformed headers; non-trivial = longer than one 16 KiB read with a frame size that does not divide 16384, or "
    "truncated, or companded; distinct by (coding, channels, samples, header size, dtype, truncation, access path)"
)
ASSUMPTIONS = [
    "a truncated data section yields whole frames only (a partial trailing frame is not a sample 'actually present')",
    "a requested wider dtype is a cast of the decoded 16-bit values (the dtype rule of C11)",
    "the bytes between 'end_head' and the end of the header block belong to no field: a well-formed file may hold anything there (blanks, NULs, non-UTF-8 bytes)",
]
ANCHOR_FILES = ("src/pydrobert/speech/_sphere.py", "src/pydrobert/speech/util.py")
EXHAUSTIVE_PARTS = ["all 256 mu-law codes and all 256 A-law codes, through 1- and 2-channel files, expanded and raw"]
LEVEL_TEXT = (
    "Every uncompressed-SPHERE decode of the workload (3000 quick / 40000 thorough files over channel counts 1-8, sample counts straddling multiples of the "
    "16 KiB read, both byte orders, both companding laws, three header sizes, truncations) is compared sample for sample with what an independent writer "
    "stored; both G.711 tables are enumerated completely against a bit-field model. Exhaustive for the tables, sampled for file shapes."
)
LEVEL_NOTE = "Trusts the SPHERE layout as implemented in vf/oracle/sphere_writer.py and the G.711 bit-field definition in vf/oracle/g711.py."


class Mon:
    def __init__(self, rec):
        self.rec = rec
        self.case = None
        self.expect = {}  # key -> dict(expected=..., kind=..., warn=bool, raises=type|None, info=...)
        self._warn = None

    def attach(self):
        from pydrobert.speech import util as U

        monitor.attach(U, "read_signal", pre=self.pre, post=self.post, is_method=False, ambient=self.v, ambient_ok=monitor.named_file)

    def v(self, what, **kw):
        self.rec.violation(dict(what=what, case=self.case, **kw))

    def register(self, key, **kw):
        self.expect[key if isinstance(key, str) else id(key)] = kw

    def pre(self, c):
        rf = c.args[0] if c.args else c.kwargs.get("rfilename")
        key = rf if isinstance(rf, str) else id(rf)
        exp = self.expect.get(key)
        if exp is None:
            return None
        self._warn = warnings.catch_warnings(record=True)
        wl = self._warn.__enter__()
        warnings.simplefilter("always")
        return {"exp": exp, "warnings": wl}

    def post(self, c):
        st = c.state
        if st is None:
            return
        wl = list(st["warnings"])
        self._warn.__exit__(None, None, None)
        exp = st["exp"]
        info = exp["info"]
        self.rec.ev()
        self.rec.count("sph_decodes")
        if exp.get("raises"):
            self.rec.count("malformed_headers")
            if not isinstance(c.exc, exp["raises"]):
                self.v("malformed SPHERE input (%s) gave %r, documented IOError" % (info.get("malformed"), c.exc if c.exc is not None else "a result"), check="bad_header", **info)
            if c.exc is not None and not isinstance(c.exc, Exception):
                return
            c.exc = c.exc  # the driver swallows it
            return
        if c.exc is not None:
            self.v("read_signal raised %r for a well-formed file (%s)" % (c.exc, info), check="raise", **info)
            return
        got = np.asarray(c.result)
        want = exp["expected"]
        if got.shape != want.shape:
            self.v("decoded shape %r, stored %r (%s)" % (got.shape, want.shape, info), check="shape", **info)
        elif got.dtype != want.dtype:
            self.v("decoded dtype %s, expected %s (%s)" % (got.dtype, want.dtype, info), check="dtype", **info)
        elif not np.array_equal(got, want):
            bad = np.argwhere(got != want)
            i = tuple(int(v) for v in bad[0])
            self.v("sample %r decodes to %r, stored %r; %d of %d values differ (%s)" % (i, got[i].item(), want[i].item(), len(bad), want.size, info), check="value", first_bad=list(i), **info)
        nw = len(wl)
        if exp.get("warn"):
            self.rec.count("truncated_files")
            if nw != 1:
                self.v("truncated data section gave %d warnings, documented exactly one (%s)" % (nw, info), check="warning", **info)
        elif nw:
            self.v("complete file gave warning(s) %r" % [str(w.message) for w in wl][:2], check="warning", **info)
        nontriv = info["truncated"] or info["coding"] in ("ulaw", "alaw") or (info["nsamp"] * info["nchan"] * info["nbytes"] > 16384 and 16384 % (info["nchan"] * info["nbytes"]))
        if nontriv:
            self.rec.nt(tuple(sorted(info.items())))
        if info["nsamp"] * info["nchan"] * info["nbytes"] > 16384 and 16384 % (info["nchan"] * info["nbytes"]):
            self.rec.count("multi_read_files_with_frames_straddling_reads")


def expand(codes, coding):
    tab = np.array(g711.ULAW if coding == "ulaw" else g711.ALAW, dtype=np.int16)
    return tab[codes]


PADS = (b" ", b"\0", b"\n", b"\xff", "caf\xe9 ".encode("latin-1"), b"\x80\x00")  # fill between "end_head" and the data (never part of a field)


def make_file(rng, spec):
    """-> (bytes, expected array, warn flag)"""
    c, n, coding, order, hdr = spec["nchan"], spec["nsamp"], spec["coding"], spec["order"], spec["hdrsize"]
    if coding == "pcm":
        style = spec.get("style", "noise")
        if style == "ramp":
            x = (np.arange(n * c).reshape(n, c) * 7 - 20000).astype(np.int64)
            x = ((x + 32768) % 65536 - 32768).astype(np.int16)
        else:
            x = rng.integers(-2 ** 15, 2 ** 15, (n, c)).astype(np.int16)
        data = SW.pcm_bytes(x, order)
        nbytes = 2
        dec = x
        raw = None
    else:
        codes = rng.integers(0, 256, (n, c)).astype(np.uint8) if spec.get("codes") is None else np.array(spec["codes"], dtype=np.uint8).reshape(n, c)
        data = codes.tobytes()
        nbytes = 1
        dec = expand(codes, coding)
        raw = codes
    if spec.get("plant"):
        # bytes chosen by the test at given offsets of the data section (they are sample data like any other)
        buf = bytearray(data)
        for off, blob in spec["plant"]:
            if off + len(blob) <= len(buf):
                buf[off:off + len(blob)] = bytes(blob)
        data = bytes(buf)
        if coding == "pcm":
            dec = x = np.frombuffer(data, dtype="<i2" if order == "01" else ">i2").reshape(n, c).astype(np.int16)
        else:
            raw = codes = np.frombuffer(data, dtype=np.uint8).reshape(n, c)
            dec = expand(codes, coding)
    extra = ()
    if spec.get("extra"):
        extra = ("database_id -s5 VERIF", "speaker_id -s3 abc", "sample_sig_bits -i 16")[: spec["extra"]]
    coding_str = {"pcm": "pcm", "ulaw": "ulaw", "alaw": "alaw"}[coding]
    h = SW.header(c, n, coding_str, nbytes, order if coding == "pcm" else "1", hdr, extra=extra, lead=spec.get("lead", 0), pad=PADS[spec.get("pad", 0)])
    keep = n
    if spec.get("cut_bytes") is not None:
        total = len(data) - spec["cut_bytes"]
        data = data[:max(total, 0)]
        keep = len(data) // (c * nbytes)
    dt = spec.get("dtype")
    if dt == "u1" and coding != "pcm":
        want = raw[:keep]
    else:
        want = dec[:keep]
        if dt not in (None, "u1"):
            want = want.astype(dt)
    if c == 1:
        want = want[:, 0]
    return h + data, np.ascontiguousarray(want), keep != n


def run_case(case, rec, mon=None):
    from pydrobert.speech import util as U, _sphere

    own = mon is None
    if own:
        monitor.detach_all()
        mon = Mon(rec)
        mon.attach()
        sanit.install([_sphere])
    mon.case = case
    rng = rng_for(case["seed"], "C12", case["idx"], 1)
    kind = case["kind"]
    d = tempfile.mkdtemp(prefix="c12_")
    try:
        if kind == "file":
            spec = case["spec"]
            blob, want, warn = make_file(rng, spec)
            info = dict(coding=spec["coding"], nchan=spec["nchan"], nsamp=spec["nsamp"], nbytes=2 if spec["coding"] == "pcm" else 1, order=spec["order"],
                        hdrsize=spec["hdrsize"], dtype=str(spec.get("dtype")), truncated=bool(warn), access=spec["access"])
            dt = {None: None, "u1": np.uint8}.get(spec.get("dtype"), spec.get("dtype"))
            try:
                if spec["access"] == "path":
                    p = os.path.join(d, "x.sph")
                    open(p, "wb").write(blob)
                    mon.register(p, expected=want, warn=warn, info=info)
                    U.read_signal(p) if dt is None else U.read_signal(p, dtype=dt)
                elif spec["access"] == "path_force":
                    p = os.path.join(d, "x.dat")
                    open(p, "wb").write(blob)
                    mon.register(p, expected=want, warn=warn, info=info)
                    U.read_signal(p, dt, None, "sph")
                else:
                    f = io.BytesIO(blob)
                    if case["idx"] % 3 == 1:
                        # an unbuffered stream whose read(n) may legitimately return fewer than n bytes (a pipe, a socket):
                        # (since fix 61749fb the header is read in full from such streams as well)
                        f = _ShortReads(blob, int(rng.choice([700, 1500, 5000, 8191, 16383, 20001])))
                        info["access"] = "stream_short_reads"
                        rec.count("streams_with_short_reads")
                    elif case["idx"] % 3 == 2:
                        # real files that are not opened from a path: from a descriptor (its .name is an integer), or an unnamed
                        # temporary file
                        if case["idx"] % 2:
                            p = os.path.join(d, "fd.sph")
                            open(p, "wb").write(blob)
                            f = open(os.open(p, os.O_RDONLY), "rb")
                            info["access"] = "stream_from_descriptor"
                        else:
                            f = tempfile.TemporaryFile()
                            f.write(blob)
                            f.seek(0)
                            info["access"] = "stream_temporary_file"
                        rec.count("streams_that_are_real_files_without_a_path_name")
                    elif case["idx"] % 6 == 0:
                        # the SPHERE file is not at the start of the stream (it follows something else: another file, an archive
                        # member's header); the stream stands where the NIST header begins
                        lead = bytes(rng.integers(0, 256, int(rng.choice([1, 7, 512, 1024, 3001])), dtype=np.uint8))
                        f = io.BytesIO(lead + blob)
                        f.seek(len(lead))
                        info["access"] = "stream_positioned_behind_%d_other_bytes" % len(lead)
                        rec.count("streams_whose_header_is_not_at_offset_0")
                    mon.register(f, expected=want, warn=warn, info=info)
                    try:
                        U.read_signal(f, dtype=dt, force_as="sph")
                    finally:
                        f.close()
            except Exception:
                pass
            rec.sample(info)
        elif kind == "tables":
            for coding in ("ulaw", "alaw"):
                for c in (1, 2):
                    for dt in (None, "u1"):
                        codes = np.arange(256, dtype=np.uint8)
                        if c == 2:
                            codes = np.stack([codes, codes[::-1]], 1)
                        spec = dict(nchan=c, nsamp=256, coding=coding, order="1", hdrsize=1024, dtype=dt, codes=codes.ravel().tolist())
                        blob, want, warn = make_file(rng, spec)
                        info = dict(coding=coding, nchan=c, nsamp=256, nbytes=1, order="1", hdrsize=1024, dtype=str(dt), truncated=False, access="stream", table="all 256 codes")
                        f = io.BytesIO(blob)
                        mon.register(f, expected=want, warn=False, info=info)
                        try:
                            U.read_signal(f, dtype={None: None, "u1": np.uint8}[dt], force_as="sph")
                        except Exception:
                            pass
                        rec.count("g711_codes_checked_through_files", 256 * c)
            # the shipped 2-channel A-law vector against its reference WAV, expanded with the bit-field model
            p = os.path.join(os.environ.get("VERIF_REPO", "/repo"), "tests", "audio")
            if os.path.isdir(p):
                for name in sorted(os.listdir(p)):
                    if name.endswith(".sph") and "alaw" in name and "shn" not in name:
                        blob = open(os.path.join(p, name), "rb").read()
                        hs = int(blob.split(b"\n")[1])
                        head = blob[:hs].decode(errors="replace")
                        c = int(head.split("channel_count -i ")[1].split()[0])
                        n = int(head.split("sample_count -i ")[1].split()[0])
                        codes = np.frombuffer(blob[hs:hs + n * c], dtype=np.uint8).reshape(n, c)
                        want = expand(codes, "alaw")
                        want = want[:, 0] if c == 1 else want
                        info = dict(coding="alaw", nchan=c, nsamp=n, nbytes=1, order="1", hdrsize=hs, dtype="None", truncated=False, access="path", shipped=name)
                        mon.register(os.path.join(p, name), expected=np.ascontiguousarray(want), warn=False, info=info)
                        try:
                            U.read_signal(os.path.join(p, name))
                        except Exception:
                            pass
                        rec.count("shipped_vectors_checked")
            rec.sample({"kind": "tables", "codes": "0..255 of mu-law and A-law"})
        elif kind == "malformed":
            good = SW.header(1, 10, "pcm", 2, "01", 1024) + np.arange(10, dtype="<i2").tobytes()
            bads = {
                "empty": b"",
                "riff": b"RIFF" + b"0" * 2000,
                "short_header": b"NIST_1A\n   1024\n" + b" " * 100,
                "header_size_512": good.replace(b"   1024", b"    512"),
                "wrong_magic": b"NIST_1B" + good[7:],
                "magic_only_1023": good[:1023],
            }
            for k, (name, blob) in enumerate(bads.items()):
                f = io.BytesIO(blob)
                if (k + case["idx"]) % 3 == 0:
                    f = tempfile.TemporaryFile()  # (a real file whose .name is not a path)
                    f.write(blob)
                    f.seek(0)
                mon.register(f, raises=IOError, info=dict(malformed=name, coding="pcm", nchan=1, nsamp=10, nbytes=2, truncated=False))
                try:
                    U.read_signal(f, force_as="sph")
                except Exception:
                    pass
            rec.sample({"kind": "malformed", "variants": sorted(bads)})
            rec.nt(("malformed", tuple(sorted(bads))))
    finally:
        shutil.rmtree(d, ignore_errors=True)
        mon.expect.clear()
    if own:
        rec.count("sanitizer_np_empty_intercepted", sanit.COUNTS["empty"])
        monitor.report(rec)
        sanit.uninstall([_sphere])
        monitor.detach_all()


class _ShortReads(io.RawIOBase):
    """a readable raw stream over `data` that hands out at most `k` bytes per read"""

    def __init__(self, data, k):
        super().__init__()
        self._b = io.BytesIO(data)
        self._k = k

    def readable(self):
        return True

    def readinto(self, buf):
        d = self._b.read(min(len(buf), self._k))
        buf[:len(d)] = d
        return len(d)


def make_spec(seed, idx):
    rng = rng_for(seed, "C12", idx, 0)
    coding = str(rng.choice(["pcm", "pcm", "ulaw", "alaw"]))
    c = int(rng.choice([1, 2, 3, 4, 5, 6, 7, 8]))
    if idx % 25 == 13:
        # many channels (microphone arrays, multiplexed recordings): a frame of one sample per channel that is as long as, or longer
        # than, any plausible read-block size (2^14 bytes among them)
        c = int(rng.choice([9, 16, 63, 64, 100, 255, 256, 1000, 4096, 8191, 8192, 8193, 10000, 16383, 16384, 16385, 20000, 40000]))
    b = 2 if coding == "pcm" else 1
    per = 16384 // (c * b)
    n = int(rng.choice([1, 2, max(1, per - 1), per, per + 1, 2 * per, 2 * per + 1, 3 * per - 1, 3 * per + 2, 5 * per + 1, int(rng.integers(1, 40000 // c + 2)), int(rng.integers(1, 300))]))
    spec = dict(nchan=c, nsamp=max(1, n), coding=coding, order=str(rng.choice(["01", "10"])), hdrsize=int(rng.choice([1024, 1024, 2048, 4096])),
                extra=int(rng.integers(0, 4)), access=str(rng.choice(["path", "stream", "path_force"])), style=str(rng.choice(["noise", "ramp"])))
    spec["pad"] = idx % len(PADS)
    if spec["hdrsize"] > 1024 and rng.random() < 0.6:
        # enough optional fields in front that the mandatory ones reach, or straddle, byte 1024 of the header
        spec["lead"] = int(rng.integers(840, 1011))
    r = rng.random()
    if coding == "pcm":
        spec["dtype"] = None if r < 0.7 else ("int32" if r < 0.85 else "float64")
    else:
        spec["dtype"] = None if r < 0.5 else ("u1" if r < 0.8 else ("int32" if r < 0.9 else "float64"))
    if rng.random() < 0.25 and spec["nsamp"] > 1:
        total = spec["nsamp"] * c * b
        cut = int(rng.integers(1, total)) if rng.random() < 0.6 else int(rng.integers(1, min(total, c * b * 3)))
        spec["cut_bytes"] = cut
    return spec


def plan(tier, seed):
    n = 3000 if tier == "quick" else 40000
    return [{"a": a, "b": b, "seed": seed} for a, b in split(n, 16)]


def run_shard(spec, rec):
    from pydrobert.speech import _sphere

    mon = Mon(rec)
    mon.attach()
    sanit.install([_sphere])
    try:
        for i in range(spec["a"], spec["b"]):
            run_case({"kind": "file", "idx": i, "seed": spec["seed"], "spec": make_spec(spec["seed"], i)}, rec, mon)
            if i % 60 == 7:
                # directed: data that happens to spell the magic number of an embedded shorten stream ("ajkg", then a version byte) exactly
                # where a 16 KiB read starts - of an uncompressed file it is sample data like any other - and one byte off as a control
                rng = rng_for(spec["seed"], "C12", i, 5)
                c = int(rng.choice([1, 2, 4, 8]))
                coding = str(rng.choice(["pcm", "ulaw", "alaw"]))
                b = 2 if coding == "pcm" else 1
                per = 16384 // (c * b)
                ver = [0, 1, 2, 3, 255][(i // 60) % 5]
                plant = [(16384 * k, list(b"ajkg") + [ver, 0, 1, 2]) for k in ((1, 2) if i % 120 == 7 else (2,))] + [(16384 * 3 + 1, list(b"ajkg") + [2])]
                sp = dict(nchan=c, nsamp=3 * per + int(rng.integers(8, 200)), coding=coding, order=str(rng.choice(["01", "10"])), hdrsize=1024, extra=0,
                          access=["path", "stream", "path_force"][(i // 60) % 3], style="noise", dtype=None, plant=plant)
                run_case({"kind": "file", "idx": 3 * 10 ** 6 + 3 * i, "seed": spec["seed"], "spec": sp}, rec, mon)
                rec.count("files_whose_data_spells_the_shorten_magic_at_a_read_boundary")
        if spec["a"] == 0:
            run_case({"kind": "tables", "idx": 0, "seed": spec["seed"]}, rec, mon)
        run_case({"kind": "malformed", "idx": spec["a"], "seed": spec["seed"]}, rec, mon)
    finally:
        sanit.uninstall([_sphere])
    rec.count("sanitizer_np_empty_intercepted", sanit.COUNTS["empty"])
    monitor.report(rec)
    monitor.detach_all()


def finish(rec):
    monitor.require(rec, ["pydrobert.speech.util.read_signal"])
    for k in ("g711_codes_checked_through_files", "truncated_files", "malformed_headers", "multi_read_files_with_frames_straddling_reads", "shipped_vectors_checked"):
        if not rec.counters[k]:
            rec.inconc("class %s never observed" % k)
    rec.extra["sanitizer"] = {"np_empty_intercepted": int(rec.counters["sanitizer_np_empty_intercepted"])}


def classify(w):
    return None
