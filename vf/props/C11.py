"""C11 - read_signal returns exactly what was stored, from a path or a stream.

Monitor: post-hooks on util.read_signal and util.wds_read_signal.  The driver writes arrays
with each container's *own* writer (wave, soundfile PCM_16 flac/aiff, np.save, np.savez[_compressed],
torch.save, h5py, ndarray.tofile, the independent SPHERE writer) and registers what was
stored; the monitor compares every read (bit-identical values, stored dtype, time x
channels shape, final dtype cast, key selection) and the documented error types.
Hostile byte strings for wds_read_signal are decoded in isolated child processes
(faulthandler, address-space limit, timeout, bisection on a crash).
"""
import io
import json
import os
import pickle
import shutil
import subprocess
import sys
import tempfile
import wave

import numpy as np

from .. import monitor
from ..common import rng_for, split
from ..oracle import sphere_writer as SW

OPTIMIZED_SHARDS = 1  # shards run once more in an interpreter started with -O (vf/run.py)
LEVEL = "exploration"
TECHNIQUE = "runtime monitors on read_signal / wds_read_signal against per-container writers; hostile-bytes decoding in crash-isolated child processes; ambient-settings monitor (stateless calls repeated under -W error and np.errstate raise)"
RULE = (
    "round trips: seeded (container in wav16/wav32/flac/aiff/npy/npz/npz-compressed/pt/hdf5/raw/sph; shapes 0-/1-/many-sample, 1-6 channels, >=2-D for array "
    "containers; dtypes per container; multi-entry archives with key; access by file name (suffix inference, names with several dots / upper-case directory "
    "parts), by forced type, by open binary stream; requested dtype None or a cast); error contract cases; hostile decodes: valid files truncated / bit-"
    "flipped / spliced / wrong container for the suffix / wrong object type inside a valid container / random bytes, for every suffix and none; non-trivial = "
    "round trip with >= 2 channels or >= 2 archive entries or a dtype cast, or a hostile decode of a mutated valid file; distinct by full case description"
)
ASSUMPTIONS = [
    "scipy is absent, so .wav goes through the standard wave module (the documented fallback)",
    "raw binary has no stored dtype: it is read with force_as='file' and the dtype it was written with, from a path or a real file object",
    "a requested dtype means expected.astype(dtype) of the stored values (a plain final cast)",
]
ANCHOR_FILES = ("src/pydrobert/speech/util.py", "src/pydrobert/speech/config.py")
EXHAUSTIVE_PARTS = []
LEVEL_TEXT = (
    "Hundreds to thousands of round trips per tier across all eleven container kinds and three access paths are compared bit for bit with what the "
    "container's own writer stored, and thousands of hostile byte strings are fed to wds_read_signal in isolated children where it must return an array or "
    "None and never raise or crash. Sampled exploration."
)
LEVEL_NOTE = "Trusts each container library's writer (wave, soundfile/libsndfile, numpy, torch, h5py) as the definition of 'what was stored'."

AUDIO = ("wav16", "wav32", "flac", "aiff", "sph")
KINDS = ("wav16", "wav32", "flac", "aiff", "npy", "npz", "npzc", "pt", "hdf5", "raw", "sph")
SUFFIX = {"wav16": ".wav", "wav32": ".wav", "flac": ".flac", "aiff": ".aiff", "npy": ".npy", "npz": ".npz", "npzc": ".npz", "pt": ".pt", "hdf5": ".hdf5",
          "raw": ".bin", "sph": ".sph"}
FORCE = {"wav16": "wav", "wav32": "wav", "flac": "flac", "aiff": "aiff", "npy": "npy", "npz": "npz", "npzc": "npz", "pt": "pt", "hdf5": "hdf5", "raw": "file",
         "sph": "sph"}


def _contig(a):
    """a C-ordered copy with the shape kept (np.ascontiguousarray turns a zero-dimensional array into a one-element vector)"""
    return np.array(a, order="C", copy=True)


def gen_array(rng, kind):
    if kind in AUDIO:
        # (libsndfile cannot reopen a FLAC file without frames, and a SPHERE header needs sample_count >= 1)
        n = int(rng.choice([0, 1, 2, int(rng.integers(3, 3000))])) if kind not in ("sph", "flac") else int(rng.choice([1, 2, int(rng.integers(3, 3000))]))
        c = int(rng.integers(1, 7))
        if rng.random() < 0.06 and kind != "flac":
            # beyond 2^16 frames with several channels (block sizes of a reader that works in pieces)
            n, c = int(rng.choice([65535, 65536, 65537, 70001, 131073])), int(rng.choice([2, 3]))
        if kind == "wav32":
            x = rng.integers(-2 ** 31, 2 ** 31 - 1, (n, c)).astype(np.int32)
        else:
            x = rng.integers(-2 ** 15, 2 ** 15 - 1, (n, c)).astype(np.int16)
        return x
    nd = int(rng.integers(1, 4)) if kind != "raw" else 1
    shape = tuple(int(rng.choice([0, 1, 2, 5, 17])) if rng.random() < 0.15 else int(rng.integers(1, 40)) for _ in range(nd))
    if kind != "raw" and rng.random() < 0.07:
        shape = ()  # a zero-dimensional array is an array with a shape like any other
    dt = str(rng.choice(["float32", "float64", "int16", "int32", "uint8", "int64", "float16"]))
    if dt.startswith("float"):
        x = rng.standard_normal(shape).astype(dt)
    else:
        info = np.iinfo(dt)
        x = rng.integers(max(info.min, -10 ** 6), min(info.max, 10 ** 6), shape).astype(dt)
    if kind in ("npy", "npz", "npzc") and rng.random() < 0.1:
        x = x.astype(x.dtype.newbyteorder())  # stored with the other byte order: that is its stored dtype
    return x


def write(kind, x, path, rng, extra=None):
    """write x (and optional extra entries) with the container's own writer; returns the key to use (or None)"""
    if kind in ("wav16", "wav32"):
        w = wave.open(path, "wb")
        w.setnchannels(x.shape[1])
        w.setsampwidth(2 if kind == "wav16" else 4)
        w.setframerate(8000)
        w.writeframes(np.ascontiguousarray(x).astype("<i2" if kind == "wav16" else "<i4").tobytes())
        w.close()
    elif kind in ("flac", "aiff"):
        import soundfile

        soundfile.write(path, x, 8000, subtype="PCM_16", format=kind.upper())
    elif kind == "npy":
        np.save(path, x)
    elif kind in ("npz", "npzc"):
        save = np.savez_compressed if kind == "npzc" else np.savez
        if extra:
            ents = dict(extra)
            key = str(rng.choice(["sig", "utt1", "arr_1"]))
            ents[key] = x
            save(path, **ents)
            return key
        save(path, x)
    elif kind == "pt":
        import torch

        torch.save(torch.from_numpy(_contig(x)), path)
    elif kind == "hdf5":
        import h5py

        with h5py.File(path, "w") as f:
            if extra:
                key = str(rng.choice(["grp/sig", "zz", "m/n/o"]))
                for k, v in extra.items():
                    f.create_dataset("a_first/" + k if rng.random() < 0.5 else "zzz_" + k, data=v)
                f.create_dataset(key, data=x)
                return key
            f.create_dataset(str(rng.choice(["data", "g/d", "a/b/c"])), data=x)
    elif kind == "raw":
        x.tofile(path)
    elif kind == "sph":
        order = str(rng.choice(["01", "10"]))
        hdr = int(rng.choice([1024, 1024, 2048, 4096]))  # (the header block may be longer than the fields need)
        open(path, "wb").write(SW.header(x.shape[1], x.shape[0], "pcm", 2, order, hdr) + SW.pcm_bytes(x, order))
    return None


def expected_of(kind, x):
    if kind in AUDIO and x.ndim == 2 and x.shape[1] == 1:
        return x[:, 0]
    return x


class Mon:
    def __init__(self, rec):
        self.rec = rec
        self.case = None
        self.expect = {}

    def attach(self):
        from pydrobert.speech import util as U

        monitor.attach(U, "read_signal", pre=self.pre, post=self.post, is_method=False, ambient=self.v, ambient_ok=monitor.named_file)
        monitor.attach(U, "wds_read_signal", post=self.post_wds, is_method=False, reentrant=True)

    def v(self, what, **kw):
        self.rec.violation(dict(what=what, case=self.case, **kw))

    def register(self, key, **kw):
        self.expect[key if isinstance(key, str) else id(key)] = kw

    def pre(self, c):
        rf = c.args[0] if c.args else c.kwargs.get("rfilename")
        return self.expect.get(rf if isinstance(rf, str) else id(rf))

    def post(self, c):
        exp = c.state
        if exp is None:
            return
        info = exp["info"]
        self.rec.ev()
        if exp.get("raises"):
            self.rec.count("error_contract_cases")
            if not isinstance(c.exc, exp["raises"]) or (exp["raises"] is ValueError and isinstance(c.exc, OSError)):
                self.v("%s: got %r, documented %s" % (info["what"], c.exc if c.exc is not None else "a result", exp["raises"].__name__), check="error_type",
                       **{k: v for k, v in info.items() if k != "what"})
            return
        self.rec.count("roundtrips_" + info["kind"])
        self.rec.count("access_" + info["access"])
        if c.exc is not None:
            self.v("reading back a %s file raised %r (%s)" % (info["kind"], c.exc, info), check="raise", **info)
            return
        got, want = np.asarray(c.result), exp["expected"]
        if got.shape != want.shape:
            self.v("%s read back with shape %r, stored %r (%s)" % (info["kind"], got.shape, want.shape, info), check="shape", **info)
        elif got.dtype != want.dtype:
            self.v("%s read back as %s, expected %s (%s)" % (info["kind"], got.dtype, want.dtype, info), check="dtype", **info)
        elif not np.array_equal(got, want, equal_nan=True):
            bad = np.argwhere(~(got == want))
            i = tuple(int(v) for v in bad[0])
            self.v("%s value at %r read back as %r, stored %r (%s)" % (info["kind"], i, got[i].item(), want[i].item(), info), check="value", **info)
        if info.get("channels", 1) >= 2 or info.get("entries", 1) >= 2 or info.get("cast"):
            self.rec.nt(tuple(sorted((k, str(v)) for k, v in info.items())))

    def post_wds(self, c):
        key = c.args[0] if c.args else c.kwargs.get("key")
        exp = self.expect.get(("wds", key))
        self.rec.ev()
        self.rec.count("wds_calls")
        if c.exc is not None:
            self.v("wds_read_signal(%r, <%d bytes>) raised %r" % (key, len(c.args[1]) if len(c.args) > 1 else -1, c.exc), check="wds_raise", key=key)
            return
        if exp is not None:
            want = exp["expected"]
            got = c.result
            if got is None or np.asarray(got).shape != want.shape or not np.array_equal(np.asarray(got), want):
                self.v("wds_read_signal(%r) on a valid %s file returned %s" % (key, exp["kind"], "None" if got is None else "a different array"), check="wds_value", key=key)
        elif c.result is not None and not isinstance(c.result, np.ndarray):
            self.v("wds_read_signal(%r) returned a %s" % (key, type(c.result).__name__), check="wds_type", key=key)


def roundtrip(mon, rec, rng, d, U):
    kind = str(rng.choice(KINDS))
    x = gen_array(rng, kind)
    extra = None
    if kind in ("npz", "npzc", "hdf5") and rng.random() < 0.5:
        extra = {"arr_0" if kind != "hdf5" else "o%d" % j: gen_array(rng, "npy") for j in range(int(rng.integers(1, 3)))}
    # (names with a dollar sign or a tilde are names like any other: VFTAKE and VFSPK are set in this process's environment)
    os.environ.setdefault("VFTAKE", "7")
    os.environ.setdefault("VFSPK", "spk1")
    stem = str(rng.choice(["sig", "a.b.c", "utt.wav.x", "UPPER", "x-1", "take$VFTAKE", "${VFSPK}_utt", "~take", "100%"]))
    sub = os.path.join(d, str(rng.choice(["p", "dir.npy", "d.wav"])))
    os.makedirs(sub, exist_ok=True)
    path = os.path.join(sub, stem + SUFFIX[kind])
    key = write(kind, x, path, rng, extra)
    want = expected_of(kind, x)
    cast = None
    if rng.random() < 0.3:
        cast = str(rng.choice(["float64", "float32", "int32", "int64"]))
        if rng.random() < 0.2 and want.dtype.itemsize > 1:
            cast = want.dtype.newbyteorder().str  # the stored type with the other byte order is a dtype like any other
        with np.errstate(all="ignore"):
            want = want.astype(cast)
    access = str(rng.choice(["name", "forced", "stream"]))
    if kind == "raw":
        access = str(rng.choice(["forced", "stream"]))
    info = dict(kind=kind, shape=list(x.shape), stored_dtype=str(x.dtype), channels=x.shape[1] if kind in AUDIO else 1, entries=1 + (len(extra) if extra else 0),
                cast=cast, access=access, key=key, name=os.path.basename(path))
    kw = {}
    if key is not None:
        kw["key"] = key
    if kind == "raw":
        raw_dt = x.dtype if cast is None else x.dtype  # raw needs the stored dtype to be read at all
        if cast is not None:
            want = expected_of(kind, x)
            info["cast"] = None
        kw["dtype"] = raw_dt
    elif cast is not None:
        kw["dtype"] = np.dtype(cast) if rng.random() < 0.5 else cast
    try:
        if access == "name" and rng.random() < 0.2:
            # a name relative to the current working directory
            here = os.getcwd()
            os.chdir(sub)
            rec.count("reads_by_relative_name")
            try:
                rel = os.path.basename(path) if rng.random() < 0.5 else os.path.join(".", os.path.basename(path))
                mon.register(rel, expected=_contig(want), info=info)
                U.read_signal(rel, **kw)
            finally:
                os.chdir(here)
        elif access == "name":
            mon.register(path, expected=_contig(want), info=info)
            U.read_signal(path, **kw)
        elif access == "forced":
            p2 = os.path.join(sub, stem + ".data")
            shutil.copy(path, p2)
            mon.register(p2, expected=_contig(want), info=info)
            U.read_signal(p2, force_as=FORCE[kind], **kw)
        else:
            f = open(path, "rb") if (kind == "raw" or rng.random() < 0.5) else io.BytesIO(open(path, "rb").read())
            if kind == "sph" and x.shape[0] % 2 == 0:
                # a raw stream that hands out fewer bytes than asked for (a pipe, a socket): what SPHERE files are often read from
                from .C12 import _ShortReads

                f.close()
                f = _ShortReads(open(path, "rb").read(), int(rng.choice([1500, 4096, 8191, 16383, 20001])))
                info = dict(info, access="stream_short_reads")
                rec.count("sphere_streams_with_short_reads")
            mon.register(f, expected=_contig(want), info=info)
            try:
                U.read_signal(f, force_as=FORCE[kind], **kw)
                # the stream is the caller's: still open afterwards, and good for another read from the start
                rec.count("streams_read_a_second_time")
                if f.closed:
                    mon.v("read_signal closed the %s stream it was given" % kind, check="stream_closed", **info)
                else:
                    f.seek(0)
                    U.read_signal(f, force_as=FORCE[kind], **kw)
            finally:
                f.close()
    except Exception:
        pass
    # the webdataset hook on the same valid file (audio / array containers it can infer from the key)
    if kind not in ("raw",) and key is None and cast is None and rng.random() < 0.5:
        k = "sample/%s%s" % (stem, SUFFIX[kind])
        mon.expect[("wds", k)] = dict(expected=_contig(expected_of(kind, x)), kind=kind)
        try:
            U.wds_read_signal(k, open(path, "rb").read())
        except Exception:
            pass
        mon.expect.pop(("wds", k), None)
        rec.count("wds_valid_files")
    return info, path


def sequential_npy(mon, rec, rng, d, U):
    """np.save may be called repeatedly on one handle; read_signal(stream, force_as='npy') must then return the arrays
    one after the other, starting wherever the stream stands"""
    arrs = [gen_array(rng, "npy") for _ in range(int(rng.integers(2, 5)))]
    p = os.path.join(d, "many.bin")
    with open(p, "wb") as f:
        f.write(b"#prefix\n" if rng.random() < 0.5 else b"")
        off = f.tell()
        for a in arrs:
            np.save(f, a)
    f = open(p, "rb") if rng.random() < 0.5 else io.BytesIO(open(p, "rb").read())
    f.seek(off)
    try:
        for j, a in enumerate(arrs):
            mon.expect.clear()
            mon.register(f, expected=_contig(a), info=dict(kind="npy", shape=list(a.shape), stored_dtype=str(a.dtype), channels=1, entries=len(arrs), cast=None,
                                                                        access="stream", key=None, name="array %d of %d on one stream (offset %d)" % (j, len(arrs), f.tell())))
            try:
                U.read_signal(f, force_as="npy")
            except Exception:
                break
            rec.count("sequential_stream_reads")
    finally:
        f.close()
        mon.expect.clear()


def error_contract(mon, rec, rng, d, U):
    x = np.arange(10, dtype=np.int16)
    p = os.path.join(d, "noext")
    np.save(p + ".npy", x)
    cases = []
    for name in ("file_without_suffix", "file.unknown", "file.txt", "dir.npy/file"):
        q = os.path.join(d, name)
        os.makedirs(os.path.dirname(q), exist_ok=True)
        shutil.copy(p + ".npy", q)
        cases.append((q, {}, IOError, "name with no recognised suffix (%s)" % name))
    f = io.BytesIO(open(p + ".npy", "rb").read())
    cases.append((f, {}, ValueError, "stream without force_as"))
    f2 = io.BytesIO(open(p + ".npy", "rb").read())
    cases.append((f2, {"force_as": "nope"}, ValueError, "stream with unknown force_as"))
    cases.append((p + ".npy", {"force_as": "mp7"}, ValueError, "path with unknown force_as"))
    cases.append((io.BytesIO(b"abc"), {"force_as": "kaldi"}, ValueError, "stream with a kaldi type"))
    # unknown values that are falsy or differ from a known one only in case / white space
    for bad in ("", " ", "NPY", "npy ", "Wav"):
        cases.append((p + ".npy", {"force_as": bad}, ValueError, "path with unknown force_as %r" % bad))
        cases.append((io.BytesIO(open(p + ".npy", "rb").read()), {"force_as": bad}, ValueError, "stream with unknown force_as %r" % bad))
    # names of formats that libsndfile knows but that are not among the documented force_as values (config.SOUNDFILE_SUPPORTED_FILE_TYPES
    # lists the audio types that are): unknown values like any other, on an audio file that soundfile could well decode
    try:
        import soundfile
        from pydrobert.speech import config as CFG

        documented = {"table", "wav", "hdf5", "npy", "npz", "pt", "sph", "kaldi", "file", "soundfile"} | set(CFG.SOUNDFILE_SUPPORTED_FILE_TYPES)
        others = sorted({f.lower() for f in soundfile.available_formats()} - documented)
        fl = os.path.join(d, "tone.flac")
        soundfile.write(fl, (np.arange(64, dtype=np.int16) * 100).reshape(-1, 1), 8000, subtype="PCM_16", format="FLAC")
        for bad in others[:: max(1, len(others) // 8)]:
            cases.append((fl, {"force_as": bad}, ValueError, "audio file by name with force_as %r (a libsndfile format that is not a documented value)" % bad))
            cases.append((io.BytesIO(open(fl, "rb").read()), {"force_as": bad}, ValueError, "audio stream with force_as %r (a libsndfile format that is not a documented value)" % bad))
        rec.count("undocumented_libsndfile_format_names_as_force_as", len(others[:: max(1, len(others) // 8)]))
    except ImportError:
        pass
    q2 = os.path.join(d, "file.dat")
    shutil.copy(p + ".npy", q2)
    cases.append((q2, {"force_as": ""}, ValueError, "unrecognised suffix with unknown force_as ''"))
    # streams that are real files opened from a path (they carry a .name; a recognised suffix there changes nothing), from a
    # descriptor (.name is an int) and an unnamed temporary file: without force_as each is refused with ValueError
    opened = []
    for name in ("real.npy", "real.wav", "real_no_suffix"):
        q = os.path.join(d, name)
        shutil.copy(p + ".npy", q)
        f = open(q, "rb")
        opened.append(f)
        cases.append((f, {}, ValueError, "open file %r without force_as" % name))
        f = open(q, "rb")
        opened.append(f)
        cases.append((f, {"force_as": None}, ValueError, "open file %r with force_as=None" % name))
    f = open(os.open(p + ".npy", os.O_RDONLY), "rb")
    opened.append(f)
    cases.append((f, {}, ValueError, "file opened from a descriptor without force_as"))
    f = tempfile.TemporaryFile()
    f.write(open(p + ".npy", "rb").read())
    f.seek(0)
    opened.append(f)
    cases.append((f, {}, ValueError, "temporary file without force_as"))
    for target, kw, exc, what in cases:
        mon.register(target, raises=exc, info=dict(what=what))
        try:
            U.read_signal(target, **kw)
        except Exception:
            pass
    for f in opened:
        f.close()
    rec.count("error_cases_on_real_file_objects", len(opened))
    rec.nt(("error_contract",))


def short_read_streams(mon, rec, rng, d, U):
    """SPHERE recordings of several read blocks taken from raw streams that hand out fewer bytes than asked for"""
    from .C12 import _ShortReads

    for k in (1500, 4096, 16383, 20001):
        for c in (1, 3):
            n = int(rng.integers(9000, 30000))
            x = rng.integers(-30000, 30000, size=(n, c)).astype(np.int16)
            path = os.path.join(d, "short_%d_%d.sph" % (k, c))
            write("sph", x, path, rng)
            f = _ShortReads(open(path, "rb").read(), k)
            info = dict(kind="sph", shape=list(x.shape), stored_dtype="int16", channels=c, entries=1, cast=None, access="stream_short_reads_%d" % k, key=None, name=os.path.basename(path))
            mon.register(f, expected=_contig(expected_of("sph", x)), info=info)
            try:
                U.read_signal(f, force_as="sph")
            except Exception:
                pass
            rec.count("sphere_streams_with_short_reads")
            mon.expect.clear()


def mixed_archives(mon, rec, rng, d, U):
    """archives written with one positional array and keyword arrays (the positional one is stored as 'arr_0', after the others):
    read without a key, the documented default entry 'arr_0' comes back - by name, from a stream, through the webdataset hook"""
    for kind in ("npz", "npzc"):
        save = np.savez_compressed if kind == "npzc" else np.savez
        for j in range(3):
            x = gen_array(rng, "npy")
            others = {"aaa": gen_array(rng, "npy"), "zzz": np.arange(3.0)}
            path = os.path.join(d, "mixed_%s_%d.npz" % (kind, j))
            save(path, x, **others)
            info = dict(kind=kind, shape=list(x.shape), stored_dtype=str(x.dtype), channels=1, entries=3, cast=None, access=["name", "stream", "forced"][j], key=None, name=os.path.basename(path))
            try:
                if j == 0:
                    mon.register(path, expected=_contig(x), info=info)
                    U.read_signal(path)
                elif j == 1:
                    f = io.BytesIO(open(path, "rb").read())
                    mon.register(f, expected=_contig(x), info=info)
                    U.read_signal(f, force_as="npz")
                else:
                    p2 = path[:-4] + ".data"
                    shutil.copy(path, p2)
                    mon.register(p2, expected=_contig(x), info=info)
                    U.read_signal(p2, force_as="npz")
            except Exception:
                pass
            k = "sample/mixed_%s_%d.npz" % (kind, j)
            mon.expect[("wds", k)] = dict(expected=_contig(x), kind=kind)
            try:
                U.wds_read_signal(k, open(path, "rb").read())
            except Exception:
                pass
            mon.expect.pop(("wds", k), None)
            rec.count("archives_with_positional_and_keyword_entries")
            mon.expect.clear()


def rewritten_files(mon, rec, rng, d, U):
    """What read_signal returned is the caller's array: writing other data to the same path afterwards (with the container's own
    writer, or in place) does not change it.  Recordings of a few KiB and of more than a MiB."""
    for kind in ("npy", "npy", "raw", "pt", "hdf5", "wav16", "npz"):
        for big in (False, True):
            n = int(rng.integers(600000, 700000)) if big else int(rng.integers(100, 3000))
            if kind == "wav16":
                x = rng.integers(-30000, 30000, size=(n, 1)).astype(np.int16)
                y = (x // 2 + 1).astype(np.int16)
            else:
                x = rng.integers(-30000, 30000, size=n).astype(np.int16)
                y = (x // 2 + 1).astype(np.int16)
            path = os.path.join(d, "rewrite_%s_%d%s" % (kind, int(big), SUFFIX[kind]))
            key = write(kind, x, path, rng)
            kw = {"dtype": np.int16, "force_as": "file"} if kind == "raw" else {}
            info = dict(kind=kind, shape=list(x.shape), stored_dtype=str(x.dtype), channels=1, entries=1, cast=None, access="name", key=key, name=os.path.basename(path))
            mon.register(path, expected=_contig(expected_of(kind, x)), info=info)
            try:
                first = U.read_signal(path, **kw)
            except Exception:
                continue
            snap = np.array(first, copy=True)
            if rng.random() < 0.5:
                write(kind, y, path, rng)  # the writer truncates and rewrites the same file
            else:
                with open(path, "r+b") as f:  # overwritten in place, same size
                    blob = f.read()
                    f.seek(0)
                    tmp = path + ".tmp" + SUFFIX[kind]
                    write(kind, y, tmp, rng)
                    new = open(tmp, "rb").read()
                    os.unlink(tmp)
                    f.write(new if len(new) == len(blob) else blob[: len(blob) // 2] + bytes(len(blob) - len(blob) // 2))
            rec.ev()
            rec.count("results_held_while_the_file_was_rewritten" + ("_over_1MiB" if big else ""))
            if np.asarray(first).shape != snap.shape or not np.array_equal(np.asarray(first), snap):
                mon.v("the array read from a %s file (%d samples) changed when the file was written to afterwards" % (kind, n), check="result_follows_file", **info)
            mon.expect.clear()


# ---------------------------------------------------------------- hostile inputs (isolated children)
def hostile_batch(rng, d, n):
    """list of (key, bytes, origin)"""
    valid = {}
    for kind in KINDS:
        if kind == "raw":
            continue
        x = gen_array(rng, kind)
        while x.size < 8:
            x = gen_array(rng, kind)
        path = os.path.join(d, "v_" + kind + SUFFIX[kind])
        write(kind, x, path, rng, None)
        valid[kind] = open(path, "rb").read()
    # valid containers holding the wrong kind of object
    import torch
    import h5py

    wrong = {}
    for name, obj in (("dict", {"a": torch.zeros(3)}), ("list", [1, 2, 3]), ("str", "hello"), ("none", None)):
        b = io.BytesIO()
        torch.save(obj, b)
        wrong["pt_" + name] = (".pt", b.getvalue())
    b = io.BytesIO()
    np.save(b, np.array([{"a": 1}, None], dtype=object), allow_pickle=True)
    wrong["npy_object"] = (".npy", b.getvalue())
    b = io.BytesIO()
    np.savez(b, other=np.zeros(3))
    wrong["npz_without_arr_0"] = (".npz", b.getvalue())
    hp = os.path.join(d, "empty.hdf5")
    with h5py.File(hp, "w") as f:
        f.create_group("only/groups")
    wrong["hdf5_without_dataset"] = (".hdf5", open(hp, "rb").read())
    wrong["zip_magic_garbage_npy"] = (".npy", b"PK\x03\x04" + bytes(rng.integers(0, 256, 60, dtype=np.uint8)))
    wrong["zip_magic_garbage_npz"] = (".npz", b"PK\x03\x04" + bytes(rng.integers(0, 256, 200, dtype=np.uint8)))
    wrong["numpy_magic_only"] = (".npy", b"\x93NUMPY\x01\x00")
    wrong["wav_zero_channels"] = (".wav", valid["wav16"][:22] + b"\x00\x00" + valid["wav16"][24:])
    sufs = sorted(set(SUFFIX.values()) - {".bin"}) + ["", ".ogg", ".txt", ".WAV", ".tar.npy"]
    out = []
    kinds = [k for k in KINDS if k != "raw"]
    for j in range(n):
        r = rng.random()
        if r < 0.15:
            name = str(rng.choice(sorted(wrong)))
            suf, blob = wrong[name]
            out.append(("k%d%s" % (j, suf), blob, "wrong_object:" + name))
            continue
        kind = str(rng.choice(kinds))
        blob = valid[kind]
        if r < 0.35:
            cut = int(rng.integers(0, len(blob)))
            out.append(("k%d%s" % (j, SUFFIX[kind]), blob[:cut], "truncated:" + kind))
        elif r < 0.6:
            b = bytearray(blob)
            for _ in range(int(rng.integers(1, 8))):
                if b:
                    pos = int(rng.integers(0, min(len(b), 256 if rng.random() < 0.7 else len(b))))
                    b[pos] ^= 1 << int(rng.integers(0, 8))
            out.append(("k%d%s" % (j, SUFFIX[kind]), bytes(b), "bitflip:" + kind))
        elif r < 0.75:
            other = valid[str(rng.choice(kinds))]
            a, b2 = int(rng.integers(0, len(blob) + 1)), int(rng.integers(0, len(other) + 1))
            out.append(("k%d%s" % (j, SUFFIX[kind]), blob[:a] + other[b2:], "splice:" + kind))
        elif r < 0.88:
            suf = str(rng.choice(sufs))
            out.append(("k%d%s" % (j, suf), blob, "wrong_suffix:%s_as_%s" % (kind, suf or "none")))
        else:
            suf = str(rng.choice(sufs))
            out.append(("k%d%s" % (j, suf), bytes(rng.integers(0, 256, int(rng.integers(0, 400)), dtype=np.uint8)), "random:" + (suf or "none")))
    return out


CHILD = r'''
import faulthandler, json, pickle, resource, sys
faulthandler.enable()
try:
    resource.setrlimit(resource.RLIMIT_AS, (6 << 30, 6 << 30))
except Exception:
    pass
import numpy as np
from pydrobert.speech import util as U
items = pickle.load(open(sys.argv[1], "rb"))
res = []
for key, blob, origin in items:
    try:
        r = U.wds_read_signal(key, blob)
        res.append(["none" if r is None else ("array" if isinstance(r, np.ndarray) else "other:" + type(r).__name__), None])
    except BaseException as e:
        res.append(["raised", repr(e)[:300]])
    json.dump(res, open(sys.argv[2], "w"))
'''


def run_child(items, d, tag):
    inp, outp = os.path.join(d, "h_%s.pkl" % tag), os.path.join(d, "h_%s.json" % tag)
    pickle.dump(items, open(inp, "wb"))
    if os.path.exists(outp):
        os.unlink(outp)
    try:
        p = subprocess.run([sys.executable, "-c", CHILD, inp, outp], capture_output=True, text=True, timeout=300)
        rc = p.returncode
        err = p.stderr[-600:]
    except subprocess.TimeoutExpired:
        rc, err = "timeout", ""
    res = json.load(open(outp)) if os.path.exists(outp) else []
    return rc, res, err


def hostile(mon, rec, rng, d, n):
    items = hostile_batch(rng, d, n)
    queue = [items]
    tag = 0
    while queue:
        batch = queue.pop()
        tag += 1
        rc, res, err = run_child(batch, d, str(tag))
        for (key, blob, origin), (outcome, detail) in zip(batch, res):
            rec.ev()
            rec.count("hostile_decodes")
            rec.count("hostile_" + origin.split(":")[0])
            rec.count("hostile_outcome_" + outcome.split(":")[0])
            if origin.split(":")[0] in ("truncated", "bitflip", "splice", "wrong_object"):
                rec.nt((origin, len(blob), hash(blob)))
            if outcome == "raised":
                mon.v("wds_read_signal(%r, <%d bytes, %s>) raised %s" % (key, len(blob), origin, detail), check="wds_raise", key=key, origin=origin, blob_hex=blob[:200].hex(),
                      blob_len=len(blob))
            elif outcome.startswith("other"):
                mon.v("wds_read_signal(%r, <%s>) returned %s" % (key, origin, outcome), check="wds_type", key=key, origin=origin)
        if rc != 0 and len(res) < len(batch):
            # the child died or hung on item len(res): isolate it
            bad = batch[len(res)]
            if len(batch) == 1 or True:
                rec.count("hostile_child_crashes")
                mon.v("wds_read_signal(%r, <%d bytes, %s>) killed the interpreter (rc=%r): %s" % (bad[0], len(bad[1]), bad[2], rc, err.strip().splitlines()[-1] if err.strip() else ""),
                      check="wds_crash", key=bad[0], origin=bad[2], blob_hex=bad[1][:200].hex(), blob_len=len(bad[1]))
            rest = batch[len(res) + 1:]
            if rest:
                queue.append(rest)


def run_case(case, rec, mon=None):
    from pydrobert.speech import util as U

    own = mon is None
    if own:
        monitor.detach_all()
        mon = Mon(rec)
        mon.attach()
    mon.case = case
    rng = rng_for(case["seed"], "C11", case["idx"], 0)
    d = tempfile.mkdtemp(prefix="c11_")
    try:
        if case["kind"] == "roundtrips":
            last = None
            for _ in range(case["n"]):
                if rng.random() < 0.08:
                    sequential_npy(mon, rec, rng, d, U)
                last, path = roundtrip(mon, rec, rng, d, U)
                mon.expect.clear()
                for root, dirs, files in os.walk(d):
                    for fn in files:
                        os.unlink(os.path.join(root, fn))
            rec.sample(last)
        elif case["kind"] == "errors":
            error_contract(mon, rec, rng, d, U)
            mon.expect.clear()
            rewritten_files(mon, rec, rng, d, U)
            short_read_streams(mon, rec, rng, d, U)
            mixed_archives(mon, rec, rng, d, U)
        else:
            hostile(mon, rec, rng, d, case["n"])
            rec.sample({"kind": "hostile", "n": case["n"]})
    finally:
        shutil.rmtree(d, ignore_errors=True)
    if own:
        monitor.report(rec)
        monitor.detach_all()


def plan(tier, seed):
    q = tier == "quick"
    cases = []
    idx = 0
    for i in range(16 if q else 64):
        cases.append({"kind": "roundtrips", "n": 50 if q else 160, "seed": seed, "idx": idx}); idx += 1
    for i in range(16):
        cases.append({"kind": "hostile", "n": 150 if q else 1500, "seed": seed, "idx": idx}); idx += 1
    for i in range(2):
        cases.append({"kind": "errors", "seed": seed, "idx": idx}); idx += 1
    nsh = 16
    return [{"cases": cases[i::nsh]} for i in range(nsh) if cases[i::nsh]]


def run_shard(spec, rec):
    mon = Mon(rec)
    mon.attach()
    for case in spec["cases"]:
        run_case(case, rec, mon)
    monitor.report(rec)
    monitor.detach_all()


def finish(rec):
    monitor.require(rec, ["pydrobert.speech.util.read_signal", "pydrobert.speech.util.wds_read_signal"])
    need = ["roundtrips_" + k for k in KINDS] + ["access_name", "access_forced", "access_stream", "sequential_stream_reads", "error_contract_cases", "hostile_decodes", "wds_valid_files",
                                                   "hostile_wrong_object", "hostile_truncated", "hostile_bitflip", "hostile_splice", "hostile_random", "hostile_wrong_suffix"]
    for k in need:
        if not rec.counters[k]:
            rec.inconc("class %s never observed" % k)


def classify(w):
    return None
