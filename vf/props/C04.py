"""C04 - a computer's output depends only on the current utterance.

History monitor: per instance a two-state model (idle / started) and the list of client
calls of the utterance in progress.  After every call `started` is compared with the model.
When an utterance completes (finalize, or compute_full / frame_by_frame_calculation in the
idle state) exactly the same calls are replayed on a *freshly constructed twin* and every
returned matrix must be bit-identical (values, shape, dtype).  compute_full / fbf in the
started state must raise ValueError; the utterance in progress is then checked like any
other, so a disturbance shows as instance != twin.  Instance and twin run under different
poison-fill patterns, inputs are read-only and digested before/after.
"""
import weakref

import numpy as np

from .. import compmon, gen, monitor, sanit
from ..common import config_value, rng_for, split
from .C01 import make_twin

LEVEL = "exploration"
TECHNIQUE = "history monitor: idle/started state machine + bit-identical replay of each utterance on a freshly constructed twin; differential poison-fill and read-only sanitizers"
RULE = (
    "histories: 2-12 utterances per instance over random STFT/SI configurations; utterance kinds chunked (random composition with empty chunks, empty "
    "first chunk), compute_full, frame_by_frame_calculation(chunk_size); lengths 0, 1, sub-frame, frame_length//2, frame_length, several frames, beyond a "
    "DFT block; float32/float64 switches between utterances; 0-2 redundant finalize calls; compute_full / fbf attempts mid-utterance; two instances "
    "sharing one bank interleaved; deep copies / pickle round trips of one template fed chunk by chunk in turn, one forked mid-utterance; non-trivial = history with >=2 utterances of different length class; distinct by (configuration, sequence of (kind, "
    "length class, dtype))"
)
ASSUMPTIONS = [
    "a twin built from the captured constructor arguments is 'a new instance with the same configuration' (bank objects are shared: they are immutable)",
    "bit-identical = np.array_equal plus equal dtype and shape; NaN never equals NaN, so leaked poison counts as a difference",
]
ANCHOR_FILES = ("src/pydrobert/speech/compute.py",)
EXHAUSTIVE_PARTS = []
LEVEL_TEXT = (
    "Thousands of short seeded call histories (1.5e3 quick / 3e4 thorough, ~6 utterances each) on both computers; every client call is observed, the "
    "`started` flag is checked against a state machine after each one and every completed utterance is replayed on a brand-new instance under a "
    "different poison pattern and compared bit for bit. Evidence lists how often each transition was observed. Sampled exploration over histories."
)
LEVEL_NOTE = "Trusts the twin construction through the public constructor; stale-state detection relies on differential poison + exact comparison."


def _bitsame(a, b):
    a, b = np.asarray(a), np.asarray(b)
    return a.shape == b.shape and a.dtype == b.dtype and np.array_equal(a, b)


class Shadow:
    __slots__ = ("state", "calls")

    def __init__(self):
        self.state = "idle"
        self.calls = []  # [(op, arg, result)]


class StateMonitor:
    PAT_INSTANCE = 1.5e300
    PAT_TWIN = float("nan")

    def __init__(self, rec):
        self.rec = rec
        self.case = None
        self.shadow = weakref.WeakKeyDictionary()
        self.nested = {}  # id(comp) -> depth of a client-level compute_full / fbf / finalize in progress

    def attach(self):
        from pydrobert.speech import compute as C

        compmon.attach()
        for cls in (C.ShortTimeFourierTransformFrameComputer, C.ShortIntegrationFrameComputer):
            monitor.attach(cls, "compute_chunk", pre=self.pre_arg, post=self.post_chunk)
            monitor.attach(cls, "finalize", pre=self.pre_outer, post=self.post_finalize)
            monitor.attach(cls, "compute_full", pre=self.pre_outer_arg, post=self.post_full)
        monitor.attach(C, "frame_by_frame_calculation", pre=self.pre_fbf, post=self.post_fbf, is_method=False)

    def v(self, what, **kw):
        self.rec.violation(dict(what=what, case=self.case, **kw))

    def sh(self, comp):
        s = self.shadow.get(comp)
        if s is None:
            s = self.shadow[comp] = Shadow()
        return s

    def adopt(self, copy_, original):
        """a copy taken of a computer (possibly mid-utterance) is a computer of the same configuration whose current utterance
        is whatever the original had been given so far"""
        compmon.adopt(copy_, original)
        so, sc = self.sh(original), self.sh(copy_)
        sc.state, sc.calls = so.state, list(so.calls)

    def info(self, comp):
        inf = compmon.info(comp)
        kaldi = bool(inf and inf["args"] and inf["args"].get("kaldi_shift", False))
        return dict(kind=type(comp).__name__, fl=int(comp.frame_length), fs=int(comp.frame_shift), style=comp.frame_style, kaldi=kaldi)

    # nested-call bookkeeping: SI.compute_full and fbf call compute_chunk/finalize on the instance
    def _enter(self, comp):
        k = id(comp)
        outer = self.nested.get(k, 0) == 0
        self.nested[k] = self.nested.get(k, 0) + 1
        return outer

    def _leave(self, comp):
        k = id(comp)
        self.nested[k] -= 1
        if not self.nested[k]:
            del self.nested[k]

    def pre_arg(self, c):
        x = c.args[0] if c.args else c.kwargs.get("chunk")
        return {"outer": self.nested.get(id(c.self), 0) == 0, "x": np.array(x, copy=True)}

    def pre_outer(self, c):
        return {"outer": self._enter(c.self)}

    def pre_outer_arg(self, c):
        x = c.args[0] if c.args else c.kwargs.get("signal")
        return {"outer": self._enter(c.self), "x": np.array(x, copy=True)}

    def pre_fbf(self, c):
        comp = c.args[0] if c.args else c.kwargs.get("computer")
        x = c.args[1] if len(c.args) > 1 else c.kwargs.get("signal")
        cs = c.args[2] if len(c.args) > 2 else c.kwargs.get("chunk_size", 2 ** 10)
        return {"outer": self._enter(comp), "x": np.array(x, copy=True), "comp": comp, "cs": cs}

    def check_started(self, comp, sh, after):
        try:
            st = comp.started
        except Exception as e:
            self.v("reading `started` raised %r after %s" % (e, after), check="started", **self.info(comp))
            return
        want = sh.state == "started"
        if bool(st) != want or not isinstance(st, (bool, np.bool_)):
            self.v("`started` is %r after %s; the utterance model says %r" % (st, after, want), check="started", after=after, **self.info(comp))

    def input_untouched(self, c, name, st):
        x = c.args[0] if c.args else c.kwargs.get(name)
        if not np.array_equal(np.asarray(x), st["x"]):
            self.v("%s modified its input" % c.op, check="input_modified", **self.info(c.self))

    def post_chunk(self, c):
        st = c.state
        if not st or not st["outer"]:
            return
        comp = c.self
        sh = self.sh(comp)
        self.rec.ev()
        if c.exc is None:
            self.rec.count("transition_%s_to_started" % sh.state)
            sh.state = "started"
            sh.calls.append(("chunk", st["x"], np.asarray(c.result)))
        else:
            sh.calls.append(("chunk_raises", st["x"], type(c.exc)))
            self.rec.count("compute_chunk_raised")
        self.check_started(comp, sh, "compute_chunk(%d samples%s)" % (len(st["x"]), ", raised %r" % c.exc if c.exc else ""))
        self.input_untouched(c, "chunk", st)

    def post_finalize(self, c):
        st = c.state
        comp = c.self
        if st:
            self._leave(comp)
        if not st or not st["outer"]:
            return
        sh = self.sh(comp)
        self.rec.ev()
        if c.exc is not None:
            self.v("finalize raised %r" % (c.exc,), check="raise", exc=repr(c.exc), **self.info(comp))
            # the model cannot know what a failed finalize left behind: resynchronise on the instance and
            # do not judge the rest of this utterance
            sh.state = "started" if bool(comp.started) else "idle"
            sh.calls = [("tainted", None, None)]
            self.rec.count("utterances_tainted_by_a_failed_finalize")
            return
        self.rec.count("transition_started_to_idle" if sh.state == "started" else "redundant_finalize_in_idle")
        sh.calls.append(("finalize", None, np.asarray(c.result)))
        sh.state = "idle"
        self.check_started(comp, sh, "finalize")
        if sh.calls[0][0] != "tainted":
            self.replay(comp, sh.calls)
        sh.calls = []

    def post_full(self, c):
        st = c.state
        comp = c.self
        if st:
            self._leave(comp)
        if not st or not st["outer"]:
            return
        sh = self.sh(comp)
        self.rec.ev()
        if sh.state == "started":
            self.rec.count("compute_full_rejected_in_started")
            if not isinstance(c.exc, ValueError):
                self.v("compute_full mid-utterance did not raise ValueError (%r)" % (c.exc if c.exc else "returned"), check="guard", op="compute_full", **self.info(comp))
                if c.exc is None:
                    # whatever it did, the model cannot follow: resynchronise
                    sh.state = "started" if bool(comp.started) else "idle"
                    sh.calls = []
                    return
            self.check_started(comp, sh, "rejected compute_full")
            return
        self.rec.count("compute_full_in_idle")
        if c.exc is not None:
            sh.calls = []
            self.rec.count("compute_full_raised_in_idle")
            return
        self.check_started(comp, sh, "compute_full")
        self.replay(comp, [("full", st["x"], np.asarray(c.result))])
        self.input_untouched(c, "signal", st)

    def post_fbf(self, c):
        st = c.state
        if not st:
            return
        comp = st["comp"]
        self._leave(comp)
        if not st["outer"]:
            return
        sh = self.sh(comp)
        self.rec.ev()
        if sh.state == "started":
            self.rec.count("fbf_rejected_in_started")
            if not isinstance(c.exc, ValueError):
                self.v("frame_by_frame_calculation mid-utterance did not raise ValueError (%r)" % (c.exc if c.exc else "returned"), check="guard", op="fbf", **self.info(comp))
                if c.exc is None:
                    sh.state = "started" if bool(comp.started) else "idle"
                    sh.calls = []
                    return
            self.check_started(comp, sh, "rejected frame_by_frame_calculation")
            return
        self.rec.count("fbf_in_idle")
        if c.exc is not None:
            self.rec.count("fbf_raised_in_idle")
            sh.state = "started" if bool(comp.started) else "idle"
            return
        self.check_started(comp, sh, "frame_by_frame_calculation")
        self.replay(comp, [("fbf", (st["x"], st["cs"]), np.asarray(c.result))])

    # ---- the oracle: replay on a freshly constructed twin
    def replay(self, comp, calls):
        from pydrobert.speech import compute as C

        old = sanit.set_pattern(self.PAT_TWIN, 0xA5)
        try:
            twin = make_twin(comp)
            if twin is None:
                self.rec.count("unknown_construction")
                return
            with monitor.quiet():
                for n, (op, arg, res) in enumerate(calls):
                    try:
                        if op == "chunk":
                            want = twin.compute_chunk(arg)
                        elif op == "chunk_raises":
                            try:
                                twin.compute_chunk(arg)
                            except res:
                                continue
                            except Exception as e:
                                want = e
                            else:
                                want = "no exception"
                            self.v("compute_chunk raised %s on the used instance; a new instance gives %r" % (res.__name__, want), check="twin", call=n, **self.info(comp))
                            return
                        elif op == "finalize":
                            want = twin.finalize()
                        elif op == "full":
                            want = twin.compute_full(arg)
                        else:
                            want = C.frame_by_frame_calculation(twin, arg[0], arg[1])
                    except Exception as e:
                        self.v("call %d (%s) succeeded on the used instance but raised %r on a new one" % (n, op, e), check="twin", call=n, **self.info(comp))
                        return
                    self.rec.count("calls_replayed_on_fresh_twin")
                    if not _bitsame(res, want):
                        a, b = np.asarray(res), np.asarray(want)
                        detail = "shape %r/%r dtype %s/%s" % (a.shape, b.shape, a.dtype, b.dtype)
                        if a.shape == b.shape and a.size:
                            d = np.argwhere(~(a == b))
                            if len(d):
                                i = tuple(int(v) for v in d[0])
                                detail += " first difference at %r: %r vs %r" % (i, a[i].item(), b[i].item())
                        lens = [len(x[1]) if x[0].startswith("chunk") else None for x in calls]
                        self.v("utterance on a used instance differs from a new instance at call %d (%s): %s; chunk lengths %r" % (n, op, detail, lens[:30]),
                               check="twin", call=n, call_op=op, **self.info(comp))
                        return
            self.rec.count("utterances_compared_with_fresh_twin")
        finally:
            sanit.set_pattern(old["f"], old["i"])


# ---------------------------------------------------------------- workload
def length_classes(comp, width):
    fl, fs = comp.frame_length, comp.frame_shift
    return {
        "zero": 0, "one": 1, "subframe": max(1, fl // 2 - 1), "half": fl // 2, "halfplus": fl // 2 + 1, "almost": max(1, fl - 1), "frame": fl,
        "frames": fl + 3 * fs + 1, "many": 4 * fl + 5 * fs + 2, "block": (width or 2 * fl) + 3,
    }


def run_history(comps, rng, rec, mon, n_utts):
    from pydrobert.speech import compute as C

    sig = []
    for u in range(n_utts):
        comp = comps[int(rng.integers(len(comps)))]
        inf = compmon.info(comp)
        width = inf["ir_widths"][0] if inf and len(inf["ir_widths"]) == 1 else None
        lc = length_classes(comp, width)
        cls = str(rng.choice(list(lc)))
        N = int(lc[cls])
        r_dt = rng.random()
        dt = np.float32 if r_dt < 0.3 else np.dtype(">f8") if r_dt < 0.36 else np.dtype(">f4") if r_dt < 0.4 else np.float64  # (also floats stored in the other byte order)
        x = gen.signal(rng, N, None, dt)
        x.setflags(write=False)
        kind = str(rng.choice(["chunked", "chunked", "chunked", "full", "fbf"]))
        sig.append((kind, cls, np.dtype(dt).name))
        # a configuration value the features are stated relative to, changed for the duration of this utterance only
        floor = float(rng.choice([1e-2, 1e-9])) if rng.random() < 0.15 else None
        if floor is not None:
            rec.count("utterances_under_a_temporary_log_floor")
            if rng.random() < 0.5:
                x = gen.signal(rng, N, str(rng.choice(["zeros", "noise_small"])), dt)
                x.setflags(write=False)
        elif rng.random() < 0.15:
            x = gen.signal(rng, N, str(rng.choice(["zeros", "noise_small"])), dt)  # quiet: the floor matters
            x.setflags(write=False)
        ctx = config_value("LOG_FLOOR_VALUE", floor)
        ctx.__enter__()
        strict = monitor.strict_settings() if rng.random() < 0.12 else None
        if strict is not None:
            strict.__enter__()
            rec.count("utterances_under_strict_process_settings")
        try:
            if kind == "chunked":
                parts = gen.composition(rng, N)
                if rng.random() < 0.25:
                    parts = [0] + parts  # empty first chunk
                if not parts:
                    parts = [0]
                pos = 0
                for j, n in enumerate(parts):
                    if isinstance(comp, C.ShortIntegrationFrameComputer) and rng.random() < (0.3 if j == 0 else 0.06):
                        # a chunk of an integer type: refused by the short-integration computer (ValueError), and a refused
                        # call changes nothing - not on an idle computer either
                        try:
                            comp.compute_chunk(np.arange(int(rng.integers(0, 6)), dtype=np.int32))
                        except ValueError:
                            rec.count("integer_chunks_refused")
                    comp.compute_chunk(x[pos:pos + n])
                    pos += n
                    if u % 3 == 1 and j % 2 == 0:
                        from ..common import poke

                        poke(comp)  # (attributes read, repr(), ==, hash() between two chunks: not a use of the computer)
                        rec.count("computers_inspected_between_chunks")
                    if rng.random() < 0.12:
                        # an attempt to start something else mid-utterance must be refused
                        y = gen.signal(rng, int(rng.integers(0, 3 * comp.frame_length + 2)), None)
                        try:
                            if rng.random() < 0.5:
                                comp.compute_full(y)
                            else:
                                C.frame_by_frame_calculation(comp, y, int(rng.choice([1, 3, 1024])))
                        except ValueError:
                            pass
                comp.finalize()
            elif kind == "full":
                comp.compute_full(x)
                if u % 2 == 1 and N:
                    # the caller reads every recording into one buffer of its own: the same array object, other samples
                    buf = np.array(x)
                    comp.compute_full(buf)
                    buf[...] = gen.signal(rng, N, "noise", buf.dtype)
                    comp.compute_full(buf)
                    rec.count("compute_full_on_a_buffer_refilled_in_place")
            else:
                cs = int(rng.choice([1, 2, 3, 7, max(1, comp.frame_shift), comp.frame_length, comp.frame_length + 1, 1024]))
                if rng.random() < 0.5:
                    C.frame_by_frame_calculation(comp, x, cs)
                else:
                    C.frame_by_frame_calculation(comp, x, chunk_size=cs)
            for _ in range(int(rng.choice([0, 0, 0, 1, 2]))):
                comp.finalize()
        except Exception as e:
            rec.count("history_call_raised")
            rec.note("history call raised %r" % (e,))
            try:
                comp.finalize()
            except Exception:
                pass
        finally:
            if strict is not None:
                strict.__exit__(None, None, None)
            ctx.__exit__(None, None, None)
    return sig


def run_copies(template, rng, rec, mon):
    """Copies of one computer (deep copies / pickle round trips, as made for a pool of workers), each working through its own utterance
    chunk by chunk *in turn*, so that several objects are mid-utterance at once; one of them is forked (copied again) mid-utterance
    and both branches continue.  Each object sees a plain chunk .. chunk, finalize sequence and is compared with a new instance."""
    from ..common import copied

    ways = ["deepcopy", "pickle", "deepcopy"]
    objs = [template]
    # two more computers of the same configuration, each built through the alias factory from an equal, flat mapping (the bank
    # object, numbers and strings): two builds are two computers
    inf0 = compmon.info(template)
    if inf0 and inf0["args"] is not None:
        from pydrobert.speech.alias import alias_factory_subclass_from_arg
        from pydrobert.speech.compute import FrameComputer

        name = "stft" if inf0["kind"] == "stft" else "si"
        flat = dict(inf0["args"], name=name, bank=template.bank)
        try:
            b1 = alias_factory_subclass_from_arg(FrameComputer, dict(flat))
            b2 = alias_factory_subclass_from_arg(FrameComputer, dict(flat))
            rec.count("pairs_of_computers_built_from_equal_mappings")
            probe = gen.signal(rng, 2, "noise", np.float64)
            with monitor.quiet():
                b1.compute_chunk(probe)
                st2 = bool(b2.started)
                b1.finalize()
            if st2:
                mon.v("a computer built from a mapping reports started although only another computer, built from an equal mapping, was given a chunk", check="started",
                      **mon.info(template))
            else:
                objs += [b1, b2]
        except Exception as e:
            rec.note("building from a flat mapping raised %r" % (e,))
    for w in ways[: int(rng.integers(1, 4))]:
        c = copied(template, w)
        mon.adopt(c, template)
        objs.append(c)
        rec.count("computer_copies_by_" + w)
    inf = compmon.info(template)
    width = inf["ir_widths"][0] if inf and len(inf["ir_widths"]) == 1 else None
    lc = length_classes(template, width)
    plans = []
    for o in objs:
        N = int(lc[str(rng.choice(["frames", "many", "block", "frame", "many"]))])
        x = gen.signal(rng, N, str(rng.choice(["noise", "noise", "sine", "noise_big"])), np.float64)
        x.setflags(write=False)
        step = int(rng.choice([1, 3, max(1, template.frame_shift), template.frame_length + 1, 37]))
        plans.append([o, x, step, 0])
    fork_at = int(rng.integers(1, 4))
    rounds = 0
    while any(p[3] < len(p[1]) for p in plans):
        rounds += 1
        for p in list(plans):
            o, x, step, pos = p
            if pos < len(x):
                try:
                    o.compute_chunk(x[pos:pos + step])
                except Exception:
                    rec.count("history_call_raised")  # (judged by the monitor where it happens)
                p[3] = pos + step
        if rounds == fork_at:
            o, x, step, pos = plans[0]
            if pos < len(x):
                f = copied(o, "deepcopy")
                mon.adopt(f, o)
                y = np.concatenate([x[:pos], gen.signal(rng, int(rng.integers(0, 2 * template.frame_length + 2)), "noise", np.float64)])
                y.setflags(write=False)
                plans.append([f, y, step, pos])
                rec.count("computers_forked_mid_utterance")
    for p in plans:
        try:
            p[0].finalize()
        except Exception:
            rec.count("history_call_raised")
    rec.count("histories_of_copies_interleaved_mid_utterance")
    # afterwards every object, one whole utterance after another
    for p in plans:
        try:
            p[0].compute_full(p[1][: len(p[1]) // 2])
        except Exception:
            rec.count("history_call_raised")


def run_neighbours(comp, cfg, rng, rec, mon):
    """The same utterance through one computer before and after *other* computers have worked in the same process - computers of
    nearly the same configuration (a longer or shorter frame that rounds to the same DFT size, another shift): the features are
    the same bit for bit.  (The replay on a new instance cannot see this by itself: it runs after the neighbours too.)"""
    fl, fs = comp.frame_length, comp.frame_shift
    x = gen.signal(rng, 3 * fl + 2 * fs + 5, "noise", np.float64)
    x.setflags(write=False)
    before = np.array(comp.compute_full(x), copy=True)
    rate = comp.sampling_rate
    D = 1 << max(1, int(np.ceil(np.log2(max(fl, 2)))))
    variants = []
    if cfg.get("name") == "stft":
        for fl2 in sorted({D, (fl + D + 1) // 2, max(2, fl - 1), fl + 1}):
            if fl2 != fl:
                variants.append(dict(cfg, frame_length_ms=(fl2 + 0.25) * 1000.0 / rate))
    variants.append(dict(cfg, frame_shift_ms=(fs + 1.25) * 1000.0 / rate))
    n = 0
    with monitor.quiet():
        for v in variants:
            try:
                other = gen.build(v)
                other.compute_full(gen.signal(rng, 2 * other.frame_length + 3 * other.frame_shift + 1, "noise_big", np.float64))
                n += 1
            except Exception:
                pass
    after = comp.compute_full(x)
    rec.ev()
    rec.count("utterances_repeated_after_neighbouring_computers_worked", 1 if n else 0)
    if not _bitsame(before, after):
        mon.v("the same utterance through the same computer gives other features after %d computers of neighbouring configurations worked in the process" % n,
              check="neighbours", **mon.info(comp))


def make_cfg(seed, idx):
    rng = rng_for(seed, "C04", idx, 0)
    if idx % 3 == 2:
        from .C03 import make_cfg as si_make

        cfg = si_make(seed, 500000 + idx)
        cfg["bank"]["num_filts"] = min(cfg["bank"]["num_filts"], 2)
        return cfg
    return gen.stft_cfg(rng, allow_fs_gt_fl=bool(rng.random() < 0.1))


def run_case(case, rec, mon=None):
    from pydrobert.speech import compute as C

    own = mon is None
    if own:
        monitor.detach_all()
        mon = StateMonitor(rec)
        mon.attach()
        sanit.install([C])
        sanit.set_pattern(StateMonitor.PAT_INSTANCE, 0x5A)
    mon.case = case
    rng = rng_for(case["seed"], "C04", case["idx"], 1)
    cfg = case["cfg"]
    try:
        comps = [gen.build(cfg)]
        inf = compmon.info(comps[0])
        width = inf["ir_widths"][0] if inf and len(inf["ir_widths"]) == 1 else None
        if comps[0].frame_length > 300 or (width and width > 512) or comps[0].frame_shift < 1 or comps[0].frame_length < 1:
            rec.count("configurations_skipped_size")
            comps = []
        elif rng.random() < 0.3:
            # a second instance sharing the same bank object, interleaved with the first
            c2 = dict(cfg)
            c2["bank"] = comps[0].bank
            comps.append(gen.build(c2) if False else type(comps[0])(**{k: v for k, v in c2.items() if k != "name"}))
            rec.count("histories_with_two_instances_sharing_a_bank")
    except Exception as e:
        rec.count("configurations_not_constructible")
        rec.note("not constructible: %r %r" % (e, cfg))
        comps = []
    if comps and case["idx"] % 4 == 1:
        try:
            run_copies(comps[0], rng, rec, mon)
        except Exception as e:
            mon.v("a history of copied computers raised %r" % (e,), check="copies_raise", **mon.info(comps[0]))
            for o in list(mon.shadow):
                try:
                    o.finalize()
                except Exception:
                    pass
    if case["idx"] % 25 == 3:
        # a computer written by a user against the documented base class (vf/userbank.py), which inherits compute_full: an attempt to
        # start something else mid-utterance is refused with ValueError and disturbs nothing
        from .. import userbank

        UC = userbank.user_computer_class()
        try:
            uc = UC({"name": "vfrealcos", "num_filts": 3, "sampling_rate": 1000})
            x1, x2 = gen.signal(rng, 40, "noise"), gen.signal(rng, 25, "noise")
            want = np.asarray(UC(uc.bank).compute_full(np.concatenate([x1[:17], x1[17:]])))
            uc.compute_chunk(x1[:17])
            rec.ev()
            rec.count("user_defined_computers_asked_for_compute_full_mid_utterance")
            try:
                uc.compute_full(x2)
                mon.v("a user-defined computer's inherited compute_full mid-utterance did not raise ValueError", check="guard", op="compute_full", kind="user", fl=1, fs=1, style="causal", kaldi=False)
            except ValueError:
                pass
            if not uc.started:
                mon.v("a user-defined computer is no longer started after a refused compute_full", check="started", kind="user", fl=1, fs=1, style="causal", kaldi=False)
            uc.compute_chunk(x1[17:])
            got = np.asarray(uc.finalize())
            if got.shape != want.shape or not np.allclose(got, want, rtol=1e-12, atol=0):
                mon.v("a user-defined computer's utterance was disturbed by a refused compute_full", check="twin", kind="user", fl=1, fs=1, style="causal", kaldi=False)
        except Exception as e:
            rec.note("user-defined computer scenario raised %r" % (e,))
    if comps and case["idx"] % 5 == 2:
        try:
            run_neighbours(comps[0], cfg, rng, rec, mon)
        except Exception as e:
            rec.note("neighbour scenario raised %r" % (e,))
            rec.count("history_call_raised")
    if comps:
        sig = run_history(comps, rng, rec, mon, case["n_utts"])
        rec.count("histories")
        if len({s[1] for s in sig}) >= 2:
            rec.nt((repr(cfg), tuple(sig)))
        rec.sample({"cfg": cfg, "utterances": sig})
    if own:
        monitor.report(rec)
        sanit.set_pattern(None, None)
        sanit.uninstall([C])
        monitor.detach_all()


def plan(tier, seed):
    n = 1500 if tier == "quick" else 30000
    return [{"a": a, "b": b, "seed": seed} for a, b in split(n, 16)]


def run_shard(spec, rec):
    from pydrobert.speech import compute as C

    mon = StateMonitor(rec)
    mon.attach()
    sanit.install([C])
    sanit.set_pattern(StateMonitor.PAT_INSTANCE, 0x5A)
    try:
        for i in range(spec["a"], spec["b"]):
            rng = rng_for(spec["seed"], "C04", i, 2)
            run_case({"idx": i, "seed": spec["seed"], "cfg": make_cfg(spec["seed"], i), "n_utts": int(rng.integers(2, 13))}, rec, mon)
    finally:
        sanit.set_pattern(None, None)
        sanit.uninstall([C])
    rec.count("sanitizer_np_empty_intercepted", sanit.COUNTS["empty"])
    monitor.report(rec)
    monitor.detach_all()


def finish(rec):
    monitor.require(rec, ["ShortTimeFourierTransformFrameComputer.compute_chunk", "ShortTimeFourierTransformFrameComputer.finalize",
                          "ShortIntegrationFrameComputer.compute_chunk", "ShortIntegrationFrameComputer.finalize",
                          "ShortTimeFourierTransformFrameComputer.compute_full", "ShortIntegrationFrameComputer.compute_full",
                          "pydrobert.speech.compute.frame_by_frame_calculation"])
    trans = ["transition_idle_to_started", "transition_started_to_started", "transition_started_to_idle", "redundant_finalize_in_idle",
             "compute_full_in_idle", "fbf_in_idle", "compute_full_rejected_in_started", "fbf_rejected_in_started", "utterances_compared_with_fresh_twin",
             "histories_with_two_instances_sharing_a_bank"]
    for k in trans:
        if not rec.counters[k]:
            rec.inconc("transition/class %s never observed" % k)
    rec.extra["transitions_observed"] = {k: int(rec.counters[k]) for k in trans}
    rec.extra["sanitizer"] = {"np_empty_intercepted": int(rec.counters["sanitizer_np_empty_intercepted"]),
                              "verdict": "instance (poison 1.5e300) and fresh twin (poison NaN) agreed bit for bit" if rec.counters["sanitizer_np_empty_intercepted"] else "inconclusive: no np.empty interception"}


def classify(w):
    # the C02 known finding seen through this property: kaldi_shift with frame_shift//2 > frame_length//2 makes
    # the padding negative, so finalize (or the first frame of compute_chunk) raises ValueError from np.pad
    if w.get("kaldi") and w.get("style") == "centered" and w.get("fs", 0) // 2 > w.get("fl", 0) // 2:
        if w.get("check") == "raise" and "negative values" in str(w.get("exc", "")):
            return "kaldi-shift-negative-left-pad"
        # after-effects in the same geometry: a compute_chunk / finalize that died half-way leaves the dtype and
        # the started flag of the aborted utterance behind
        if w.get("check") in ("twin", "started"):
            return "kaldi-shift-negative-left-pad"
    return None
