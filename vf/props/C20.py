"""C20 - windows and helper functions follow their documented closed forms.

Monitors: post-hooks on every WindowFunction.get_impulse_response, on util.circshift_fourier,
util.gauss_quant, util.hertz_to_angular / angular_to_hertz.  Oracles: NumPy window / area,
closed-form reversed gamma density (math.lgamma), shift theorem through np.fft.ifft + np.roll,
mpmath 40-digit normal quantile.
"""
import math

import numpy as np

from .. import monitor
from ..common import rng_for, close

LEVEL = "exploration"
TECHNIQUE = "runtime monitors on window/helper functions with closed-form and high-precision (mpmath) reference oracles; exhaustive over window widths; ambient-settings monitor (stateless calls repeated under -W error and np.errstate raise)"
RULE = (
    "windows: every width in 0..600 (quick) / 0..4096 (thorough) for the four NumPy-based windows (exhaustive), random (order, peak, width) "
    "for GammaWindow; circshift_fourier: random (dft_size incl. None, segment, start_idx incl. wrap-around, integer shift in [-3D,3D], copy, dtype); "
    "gauss_quant: log-uniform p in [1e-20, 0.5] and 1-p, random mu/std; non-trivial = width >= 2 window / segment with non-zero shift mod D / "
    "tail probability min(p,1-p) < 0.1; distinct by full argument tuple"
)
ASSUMPTIONS = [
    "scipy is not installed beside the repository, so gauss_quant is the Odeh-Evans path (the property allows either)",
    "circshift_fourier is checked for integer-valued shifts (a fractional circular shift has no unique definition) and segments no longer than the DFT",
    "tolerances: window values 1e-14 abs (after normalisation), gamma window 1e-11 rel, shift theorem 1e-10, quantile 1e-6 std",
]
ANCHOR_FILES = ("src/pydrobert/speech/filters.py", "src/pydrobert/speech/util.py")
EXHAUSTIVE_PARTS = ["all window widths 0..W for Bartlett/Blackman/Hamming/Hann (W=600 quick, 4096 thorough)"]
SUITE_TESTS = ['tests/test_filters.py', 'tests/test_util.py', 'tests/test_compute.py']  # the repository's own tests as an extra monitored workload (thorough tier)
LEVEL_TEXT = (
    "Every window width in the tier's range is enumerated for the four NumPy-based windows and compared sample by sample with the NumPy "
    "shape divided by its area; GammaWindow, circshift_fourier (including the documented default dft_size), gauss_quant and the Hz/rad "
    "conversions are sampled with seeded argument tuples against closed-form / 40-digit references. Exhaustive for widths, sampled elsewhere."
)
LEVEL_NOTE = "Trusts NumPy's window functions and FFT, math.lgamma and mpmath as references."

AREA = {"BartlettWindow": 0.5, "BlackmanWindow": 0.42, "HammingWindow": 0.54, "HannWindow": 0.5}
ALIASES = {"hann": "HannWindow", "hanning": "HannWindow", "hamming": "HammingWindow", "blackman": "BlackmanWindow", "black": "BlackmanWindow", "bartlett": "BartlettWindow",
           "tri": "BartlettWindow", "triangular": "BartlettWindow"}  # the documented aliases of the four numpy-based windows
NPWIN = {"BartlettWindow": np.bartlett, "BlackmanWindow": np.blackman, "HammingWindow": np.hamming, "HannWindow": np.hanning}


class Mon:
    def __init__(self, rec):
        from ..history import ResultHistory

        self.hist = ResultHistory(rec, self.v, keep=4)
        self.rec = rec
        self.case = None

    def attach(self):
        from pydrobert.speech import filters as F, util as U

        for name in AREA:
            monitor.attach(getattr(F, name), "get_impulse_response", post=self.post_npwin, ambient=self.v)
        monitor.attach(F.GammaWindow, "get_impulse_response", post=self.post_gamma, ambient=self.v)
        monitor.attach(F.GammaWindow, "__init__", post=self.post_gamma_init)
        monitor.attach(U, "circshift_fourier", post=self.post_circ, pre=self.pre_circ, is_method=False, ambient=self.v)
        monitor.attach(U, "gauss_quant", post=self.post_gauss, is_method=False, ambient=self.v)

    def v(self, what, **kw):
        self.rec.violation(dict(what=what, case=self.case, **kw))

    # ---- numpy-based windows
    def post_npwin(self, c):
        name = type(c.self).__name__
        if name not in AREA:
            return
        width = c.args[0] if c.args else c.kwargs.get("width")
        self.judge_npwin(name, c, width)

    def judge_npwin(self, name, c, width):
        """c: the observed call (self, result, exc); name: the documented window it is judged as"""
        self.rec.ev()
        self.rec.count("window_calls_" + name)
        if c.exc is not None:
            self.v("%s.get_impulse_response(%r) raised %r" % (name, width, c.exc), check="window_raise", cls=name, width=width)
            return
        w = np.asarray(c.result)
        width = int(width)
        if w.shape != (max(width, 0),):
            self.v("%s(%d) returned shape %r" % (name, width, w.shape), check="window_len", cls=name, width=width)
            return
        if width >= 2:
            self.rec.nt((name, width))
        if width <= 0:
            return
        if not np.all(np.isfinite(w)) or w.min() < -1e-15:
            self.v("%s(%d) has negative/non-finite samples (min %r)" % (name, width, float(w.min())), check="window_nonneg", cls=name, width=width)
        ref = NPWIN[name](width) / (AREA[name] * max(1, width - 1))
        ok, i, exc = close(w, ref, 1e-13, 1e-14)
        if not ok:
            self.v("%s(%d)[%r] = %r, numpy window / area = %r" % (name, width, i, float(w[i]), float(ref[i])), check="window_shape", cls=name, width=width)
        if width >= 2 and abs(float(w.sum()) - 1.0) > 1.0 / (width - 1):
            self.v("%s(%d) sums to %r" % (name, width, float(w.sum())), check="window_sum", cls=name, width=width)
        self.hist.observe(c.self, c.result, "%s.get_impulse_response" % name, cls=name, width=width)

    # ---- gamma window
    def post_gamma_init(self, c):
        """order and peak are documented public attributes: right after construction they read what was given"""
        if c.exc is not None:
            return
        kw = dict(zip(("order", "peak"), c.args))
        kw.update(c.kwargs)
        self.rec.count("gamma_constructions")
        for k, v in kw.items():
            if v is None:
                continue
            try:
                got = getattr(c.self, k)
            except Exception as e:
                got = e
            if not (isinstance(got, (int, float, np.integer, np.floating)) and got == v):
                self.v("GammaWindow(%s=%r): the attribute %s reads %r" % (k, v, k, got), check="gamma_attribute", order=kw.get("order"), peak=kw.get("peak"))

    def post_gamma(self, c):
        width = c.args[0] if c.args else c.kwargs.get("width")
        g = c.self
        self.rec.ev()
        self.rec.count("window_calls_GammaWindow")
        if c.exc is not None:
            self.v("GammaWindow(order=%r, peak=%r)(%r) raised %r" % (g.order, g.peak, width, c.exc), check="gamma_raise", order=g.order, peak=g.peak, width=width)
            return
        w = np.asarray(c.result, dtype=float)
        width = int(width)
        if w.shape != (max(width, 0),):
            self.v("GammaWindow(%d) returned shape %r" % (width, w.shape), check="gamma_len", order=g.order, peak=g.peak, width=width)
            return
        self.hist.observe(g, c.result, "GammaWindow.get_impulse_response", order=g.order, peak=g.peak, width=width)
        if width <= 0:
            return
        if width == 1:
            if not np.all(np.isfinite(w)) or w[0] < 0:
                self.v("GammaWindow(1) = %r" % w, check="gamma_w1", order=g.order, peak=g.peak, width=width)
            return
        n, peak = int(g.order), float(g.peak)
        if not (n >= 1 and 0 <= peak < 1):
            self.rec.count("gamma_out_of_scope")
            return
        self.rec.nt(("gamma", n, peak, width))
        if not np.all(np.isfinite(w)) or w.min() < 0:
            self.v("GammaWindow order %d peak %r width %d: negative/non-finite sample" % (n, peak, width), check="gamma_nonneg", order=n, peak=peak, width=width)
            return
        t = np.arange(width - 1, -1, -1, dtype=float)  # time-reversed
        if n > 1:
            alpha = (n - 1) / (width - peak * width)  # density p(t) = alpha^n t^(n-1) e^(-alpha t)/(n-1)!  peaks at (n-1)/alpha
            with np.errstate(divide="ignore"):
                logp = n * math.log(alpha) - math.lgamma(n) + (n - 1) * np.log(t) - alpha * t
            ref = np.exp(logp)
            # (samples a hundred orders of magnitude below the peak are products of an overflowing power and a denormal
            # exponential: compared relative to the peak, not to themselves)
            ok, i, exc = close(w, ref, 1e-10, 1e-14 * float(ref.max()))
            if not ok:
                self.v("GammaWindow(order=%d, peak=%r)(%d)[%r] = %r, reversed gamma density = %r" % (n, peak, width, i, float(w[i]), float(ref[i])),
                       check="gamma_density", order=n, peak=peak, width=width)
            k = int(np.argmax(w))
            if abs(k - max(0.0, peak * width - 1)) > 1.0 + 1e-9:
                self.v("GammaWindow(order=%d, peak=%r)(%d) arg-max at %d, expected about %r" % (n, peak, width, k, peak * width - 1),
                       check="gamma_argmax", order=n, peak=peak, width=width)
        else:
            # order 1: an exponential density, reversed: maximum at the last sample, constant ratio
            if int(np.argmax(w)) != width - 1:
                self.v("GammaWindow(order=1)(%d) arg-max at %d" % (width, int(np.argmax(w))), check="gamma_argmax", order=n, peak=peak, width=width)
            if width >= 3 and w[-1] > 0:
                alpha = w[-1]
                ref = alpha * np.exp(-alpha * t)
                ok, i, exc = close(w, ref, 1e-9, 1e-300)
                if not ok:
                    self.v("GammaWindow(order=1)(%d) is not an exponential density a e^(-a t) with a=%r (index %r)" % (width, float(alpha), i),
                           check="gamma_density", order=n, peak=peak, width=width)

    # ---- circshift_fourier
    def pre_circ(self, c):
        a = c.args[0] if c.args else c.kwargs.get("filt")
        return np.array(a, copy=True)

    def post_circ(self, c):
        names = ("filt", "shift", "start_idx", "dft_size", "copy")
        defaults = {"start_idx": 0, "dft_size": None, "copy": True}
        kw = dict(defaults)
        kw.update(dict(zip(names, c.args)))
        kw.update(c.kwargs)
        filt_before = c.state
        shift, start, D, copy = kw["shift"], int(kw["start_idx"]), kw["dft_size"], kw["copy"]
        L = len(filt_before)
        self.rec.ev()
        self.rec.count("circshift_calls")
        info = dict(L=L, shift=shift, start_idx=start, dft_size=D, copy=bool(copy), dtype=str(filt_before.dtype))
        Deff = (L + start) if D is None else int(D)
        if L > Deff or Deff < 1 or start < 0:
            self.rec.count("circshift_out_of_scope")
            return
        if float(shift) != int(shift):
            # a fraction of a sample (shift is documented as a float): there is no np.roll to compare with, the statement is the
            # documented shift theorem itself, DFT(T_u x)[k] = DFT(x)[k] exp(-2 i pi k u) with u = shift / dft_size, k the DFT index
            self.rec.count("circshift_fractional_shifts")
            if c.exc is not None:
                self.v("circshift_fourier(len %d, shift=%r, start_idx=%d, dft_size=%r, copy=%r) raised %r" % (L, shift, start, D, copy, c.exc), check="circshift_raise", **info)
                return
            out = np.asarray(c.result)
            k = (start + np.arange(L)) % Deff
            want = filt_before.astype(np.complex128) * np.exp(-2j * np.pi * k * float(shift) / Deff)
            if out.shape != (L,) or (L and float(np.max(np.abs(out - want))) > 1e-9 * max(1e-300, float(np.max(np.abs(want))))):
                self.v("circshift_fourier by %r samples: output is not input x exp(-2 i pi k shift / %d) (L=%d, start=%d)" % (shift, Deff, L, start), check="circshift_value", **info)
            elif L:
                self.rec.nt(("circfrac", L, float(shift), start, D, bool(copy), str(filt_before.dtype)))
            return
        if c.exc is not None:
            self.v("circshift_fourier(len %d, shift=%r, start_idx=%d, dft_size=%r, copy=%r) raised %r" % (L, shift, start, D, copy, c.exc),
                   check="circshift_raise", **info)
            return
        if D is None:
            self.rec.count("circshift_default_dft_size")
        out = np.asarray(c.result)
        if out.shape != (L,):
            self.v("circshift_fourier returned shape %r for a segment of %d" % (out.shape, L), check="circshift_shape", **info)
            return
        idx = (start + np.arange(L)) % Deff
        full_in = np.zeros(Deff, dtype=np.complex128)
        full_out = np.zeros(Deff, dtype=np.complex128)
        full_in[idx] = filt_before
        full_out[idx] = out
        want = np.roll(np.fft.ifft(full_in), int(shift))
        got = np.fft.ifft(full_out)
        scale = max(1e-300, float(np.max(np.abs(want)))) if L else 1.0
        if L and float(np.max(np.abs(got - want))) > 1e-10 * scale:
            self.v("circshift_fourier: ifft(out) != roll(ifft(in), %r) (max err %g, D=%d, start=%d, L=%d)" % (
                shift, float(np.max(np.abs(got - want))), Deff, start, L), check="circshift_value", **info)
        if int(shift) % Deff and L:
            self.rec.nt(("circ", L, int(shift), start, D, bool(copy), str(filt_before.dtype)))
        if copy:
            a = c.args[0] if c.args else c.kwargs.get("filt")
            if not np.array_equal(np.asarray(a), filt_before):
                self.v("circshift_fourier(copy=True) modified its input", check="circshift_copy", **info)

    # ---- gauss_quant
    def post_gauss(self, c):
        import mpmath

        names = ("p", "mu", "std")
        kw = {"mu": 0, "std": 1}
        kw.update(dict(zip(names, c.args)))
        kw.update(c.kwargs)
        p, mu, std = float(kw["p"]), float(kw["mu"]), float(kw["std"])
        self.rec.ev()
        self.rec.count("gauss_quant_calls")
        if not (min(p, 1 - p) >= 1e-20) or std <= 0:
            self.rec.count("gauss_out_of_scope")
            return
        if c.exc is not None:
            self.v("gauss_quant(%r, %r, %r) raised %r" % (p, mu, std, c.exc), check="gauss_raise", p=p, mu=mu, std=std)
            return
        mpmath.mp.dps = 40
        pp = mpmath.mpf(p)
        # quantile z with Phi(z) = p  <=>  erfc(-z/sqrt2) = 2p
        if p <= 0.5:
            z = -mpmath.sqrt(2) * mpmath.erfinv(1 - 2 * pp) if p > 1e-3 else -_tailq(pp)
        else:
            q = 1 - pp  # exact in 40 digits
            z = mpmath.sqrt(2) * mpmath.erfinv(1 - 2 * q) if q > 1e-3 else _tailq(q)
        want = float(z) * std + mu
        got = float(c.result)
        if not abs(got - want) <= 1e-6 * std + 1e-12 * abs(mu):
            self.v("gauss_quant(%r, mu=%r, std=%r) = %r, exact quantile %r (error %.3g std)" % (p, mu, std, got, want, (got - want) / std),
                   check="gauss_value", p=p, mu=mu, std=std)
        if min(p, 1 - p) < 0.1:
            self.rec.nt(("gq", p, mu, std))


class _OwnArray(np.ndarray):
    """a user's ndarray subclass"""


def _tailq(q):
    """upper-tail normal quantile for small q by mpmath root finding: 0.5 erfc(z/sqrt2) = q"""
    import mpmath

    z0 = mpmath.sqrt(-2 * mpmath.log(q))
    f = lambda z: mpmath.log(mpmath.erfc(z / mpmath.sqrt(2)) / 2) - mpmath.log(q)
    return mpmath.findroot(f, z0)


def run_case(case, rec, mon=None):
    own = mon is None
    if own:
        monitor.detach_all()
        mon = Mon(rec)
        mon.attach()
    mon.case = case
    from pydrobert.speech import filters as F, util as U

    kind = case["kind"]
    if kind == "windows":
        objs = [getattr(F, n)() for n in AREA]
        # the same windows as configurations and frame computers obtain them: by their documented aliases.  Whatever object an alias
        # gives is judged as the window the alias is documented for
        from pydrobert.speech.alias import alias_factory_subclass_from_arg
        import types

        for k, (alias, name) in enumerate(sorted(ALIASES.items())):
            o = F.WindowFunction.from_alias(alias) if k % 2 else alias_factory_subclass_from_arg(F.WindowFunction, alias if k % 4 else {"name": alias})
            rec.count("windows_obtained_by_alias")
            if type(o).__name__ == name:
                objs.append(o)
                continue
            for width in list(range(case["w0"], case["w1"]))[:40]:
                call = types.SimpleNamespace(self=o, result=None, exc=None)
                try:
                    with monitor.quiet():
                        call.result = o.get_impulse_response(width)
                except Exception as e:
                    call.exc = e
                mon.judge_npwin(name, call, width)
        from ..common import copied, COPY_WAYS

        objs += [copied(o, COPY_WAYS[k % 3]) for k, o in enumerate(objs[:4])]  # and as a copied / pickled computer carries them
        rec.count("windows_used_through_a_copy", 4)
        from ..common import poke

        for o in objs[::2]:
            poke(o)
        for width in range(case["w0"], case["w1"]):
            for o in objs:
                o.get_impulse_response(width) if width % 2 else o.get_impulse_response(width=width)
                if width % 3 == 0:
                    # the same window object asked again (one window shared by two computers), also after another width
                    o.get_impulse_response(width)
                    o.get_impulse_response(max(0, width - 1))
                    o.get_impulse_response(width)
                    rec.count("window_objects_asked_again_for_the_same_width")
        rec.sample({"kind": kind, "widths": [case["w0"], case["w1"] - 1], "classes": list(AREA)})
    elif kind == "gamma":
        rng = rng_for(case["seed"], "C20", case["idx"])
        for _ in range(case["n"]):
            order = int(rng.integers(1, 9))
            if rng.random() < 0.06:
                order = int(rng.choice([12, 22, 25, 40]))  # extreme but valid
            peak = float(rng.uniform(0.1, 0.95))
            if rng.random() < 0.08:
                peak = [0, 0.0, np.float64(0.0)][int(rng.integers(3))]  # the maximum on the first sample
            width = int(rng.choice([0, 1, 2, 3, 4, 5, int(rng.integers(6, 64)), int(rng.integers(64, 1200))]))
            F.GammaWindow(order, peak).get_impulse_response(width)
        F.GammaWindow().get_impulse_response(int(rng.integers(2, 500)))
        # order and peak are documented public attributes: the window must follow a later assignment
        for _ in range(10):
            g = F.GammaWindow(int(rng.integers(1, 9)), float(rng.uniform(0.1, 0.95)))
            g.get_impulse_response(int(rng.integers(2, 100)))
            g.order, g.peak = int(rng.integers(1, 9)), float(rng.uniform(0.1, 0.95))
            w2 = int(rng.integers(2, 300))
            g.get_impulse_response(w2)
            g.get_impulse_response(w2)  # and the same width again
            rec.count("gamma_windows_reparametrised_after_construction")
        rec.sample({"kind": kind, "last": {"order": order, "peak": peak, "width": width}})
    elif kind == "circshift":
        rng = rng_for(case["seed"], "C20", case["idx"])
        for _ in range(case["n"]):
            D = int(rng.choice([1, 2, 3, 4, 5, 7, 8, 16, int(rng.integers(2, 70)), int(rng.integers(70, 600))]))
            L = int(rng.integers(0 if rng.random() < 0.05 else 1, D + 1))
            use_default = rng.random() < 0.3
            if use_default:
                start = int(rng.integers(0, 2 * D))
                dft = None
                Deff = L + start
            else:
                start = int(rng.integers(0, D)) if rng.random() < 0.8 else int(rng.integers(0, 3 * D))
                dft = D
                Deff = D
            shift = int(rng.integers(-3 * max(Deff, 1), 3 * max(Deff, 1) + 1))
            if rng.random() < 0.2:
                shift = float(shift)
            elif rng.random() < 0.15:
                shift = shift + float(rng.choice([0.5, 0.25, -0.75, float(rng.uniform(-1, 1))]))
            dt = rng.choice(["c128", "c64", "f64"])
            seg = rng.standard_normal(L) + 1j * rng.standard_normal(L)
            seg = {"c128": seg.astype(np.complex128), "c64": seg.astype(np.complex64), "f64": seg.real.astype(np.float64)}[dt]
            copy = bool(rng.random() < 0.6)
            if L + (start if use_default else 0) == 0:
                continue
            if rng.random() < 0.15 and L:
                seg = seg.view(_OwnArray)  # the caller's spectrum as an ndarray subclass (what a memory map is, too)
                rec.count("circshift_subclass_inputs")
            try:
                if use_default and rng.random() < 0.5:
                    U.circshift_fourier(seg, shift, start, copy=copy)
                else:
                    U.circshift_fourier(seg, shift, start, dft, copy)
            except Exception:
                pass  # recorded by the monitor
        rec.sample({"kind": kind, "last": {"D": dft, "L": L, "start_idx": start, "shift": shift, "copy": copy, "dtype": dt}})
    elif kind == "gauss":
        rng = rng_for(case["seed"], "C20", case["idx"])
        ps = np.exp(rng.uniform(np.log(1e-20), np.log(0.5), case["n"]))
        ps = np.concatenate([ps, [0.5, 1e-20, 0.25, 1e-10, 0.1, 0.4999999, 0.01]])
        # (below 1e-20 no accuracy is promised, but the function is still increasing - not necessarily strictly - and affine)
        probes = sorted(set([float(p) for p in ps] + [float(1 - p) for p in ps if p >= 1e-15] + [1e-300, 1e-100, 1e-40, 1e-25, 9.9e-21, float(np.nextafter(1e-20, 0))]))
        prev = None
        for p in probes:
            z = float(U.gauss_quant(p))
            if prev is not None:
                p0, z0 = prev
                rec.count("gauss_monotone_pairs")
                if (p - p0 > 1e-9 * p0 and p0 >= 1e-20 and not z > z0) or z < z0:
                    mon.v("gauss_quant not increasing: q(%r)=%r, q(%r)=%r" % (p0, z0, p, z), check="gauss_monotone", p=p)
            prev = (p, z)
            if rng.random() < 0.25:
                mu, std = float(rng.uniform(-100, 100)), float(np.exp(rng.uniform(-5, 5)))
                z2 = float(U.gauss_quant(p, mu, std))
                rec.count("gauss_affine_checks")
                if not abs(z2 - (z * std + mu)) <= 1e-12 * (abs(z * std) + abs(mu)) + 1e-300:
                    mon.v("gauss_quant(%r, %r, %r) = %r is not mu + std*q(p) = %r" % (p, mu, std, z2, z * std + mu), check="gauss_affine", p=p, mu=mu, std=std)
            if rng.random() < 0.2:
                # location and scale as the caller's single-precision (or half-precision, integer, 0-d array) numbers, the location far
                # from zero on the scale of the deviation: the quantile is still accurate to 1e-6 deviations (judged by the monitor)
                kind_ = int(rng.integers(5))
                std_ = float(np.float32(np.exp(rng.uniform(-3, 3))))
                mu_ = float(np.float32(std_ * float(rng.choice([-1, 1])) * float(np.exp(rng.uniform(np.log(30), np.log(20000))))))
                if kind_ == 0:
                    tm, ts = np.float32(mu_), np.float32(std_)
                elif kind_ == 1:
                    tm, ts = np.float32(mu_), std_
                elif kind_ == 2:
                    tm, ts = np.array(mu_, dtype=np.float32), np.array(std_, dtype=np.float32)
                elif kind_ == 3:
                    tm, ts = int(round(mu_)), np.float32(std_)
                else:
                    tm, ts = np.float16(round(mu_ / std_ / 64) * 64 if abs(mu_ / std_) < 60000 else 1024.0), np.float16(1.0)
                rec.count("gauss_quant_with_typed_location_and_scale")
                try:
                    U.gauss_quant(p, tm, ts) if rng.random() < 0.5 else U.gauss_quant(p, mu=tm, std=ts)
                except Exception:
                    pass  # recorded by the monitor
        rec.sample({"kind": kind, "n_probes": len(probes), "first": probes[:3], "last": probes[-3:]})
    elif kind == "angular":
        rng = rng_for(case["seed"], "C20", case["idx"])
        for _ in range(case["n"]):
            rate = float(rng.choice([8000, 16000, 44100, float(np.exp(rng.uniform(0, 12)))]))
            hz = float(rng.uniform(-rate, rate)) if rng.random() < 0.7 else float(np.exp(rng.uniform(-10, 12)))
            a = U.hertz_to_angular(hz, rate)
            hz2 = U.angular_to_hertz(a, rate)
            a2 = U.hertz_to_angular(hz2, rate)
            rec.ev()
            rec.count("angular_roundtrips")
            rec.nt(("ang", hz, rate))
            if not (abs(hz2 - hz) <= 1e-14 * abs(hz) * 4 and abs(a2 - a) <= 4e-14 * abs(a)):
                mon.v("angular_to_hertz(hertz_to_angular(%r, %r)) = %r" % (hz, rate, hz2), check="angular_roundtrip", hz=hz, rate=rate)
            if not abs(a - 2 * math.pi * hz / rate) <= 4e-15 * abs(a):
                mon.v("hertz_to_angular(%r, %r) = %r, expected 2 pi f / rate" % (hz, rate, a), check="angular_value", hz=hz, rate=rate)
        # the same frequency asked first as a single-precision NumPy scalar (a value read from a float32 array), then as a Python number:
        # what an earlier caller passed does not decide the precision the next one gets
        for hz, rate in ((300.0, 8000.0), (1000.0, 16000), (62.5, 44100.0), (440.0, 22050.0), (3.0, 8.0)):
            first = U.hertz_to_angular(np.float32(hz), rate)
            U.hertz_to_angular(np.float16(hz), rate)
            a = U.hertz_to_angular(hz, rate)
            hz2 = float(U.angular_to_hertz(a, rate))
            rec.ev()
            rec.count("angular_values_asked_again_after_a_single_precision_caller")
            if not abs(float(a) - 2 * math.pi * hz / rate) <= 4e-15 * abs(2 * math.pi * hz / rate) or not abs(hz2 - hz) <= 4e-14 * abs(hz):
                mon.v("hertz_to_angular(%r, %r) = %r after the same frequency was asked as a float32 scalar (2 pi f / rate = %r; back: %r)" % (hz, rate, float(a), 2 * math.pi * hz / rate, hz2),
                      check="angular_value", hz=hz, rate=rate)
        rec.sample({"kind": kind, "last": {"hz": hz, "rate": rate}})
    if own:
        monitor.report(rec)
        monitor.detach_all()


def plan(tier, seed):
    W = 601 if tier == "quick" else 4097
    cases = []
    step = 50 if tier == "quick" else 128
    for a in range(0, W, step):
        cases.append({"kind": "windows", "w0": a, "w1": min(W, a + step)})
    k = 8 if tier == "quick" else 64
    idx = 0
    for i in range(k):
        cases.append({"kind": "gamma", "n": 250, "seed": seed, "idx": idx}); idx += 1
        cases.append({"kind": "circshift", "n": 1200 if tier == "quick" else 4000, "seed": seed, "idx": idx}); idx += 1
        cases.append({"kind": "gauss", "n": 150 if tier == "quick" else 400, "seed": seed, "idx": idx}); idx += 1
        cases.append({"kind": "angular", "n": 500, "seed": seed, "idx": idx}); idx += 1
    nsh = 8 if tier == "quick" else 16
    return [{"cases": cases[i::nsh]} for i in range(nsh) if cases[i::nsh]]


def run_shard(spec, rec):
    if "suite" in spec:
        from .. import suite

        return suite.run(__name__.rsplit(".", 1)[-1], spec, rec)
    mon = Mon(rec)
    mon.attach()
    for case in spec["cases"]:
        run_case(case, rec, mon)
    monitor.report(rec)
    monitor.detach_all()


def finish(rec):
    monitor.require(rec, [n + ".get_impulse_response" for n in list(AREA) + ["GammaWindow"]] + ["pydrobert.speech.util.circshift_fourier", "pydrobert.speech.util.gauss_quant"])
    for k in ("circshift_default_dft_size", "gauss_monotone_pairs", "gauss_affine_checks", "angular_roundtrips", "gamma_windows_reparametrised_after_construction"):
        if not rec.counters[k]:
            rec.inconc("check %s never ran" % k)


def classify(w):
    return None
