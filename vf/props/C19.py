"""C19 - scaling functions are strictly increasing, exactly invertible, continuous and
equal to the published formulas.

Monitor: post-hooks on hertz_to_scale / scale_to_hertz of the four real classes record
every (instance parameters, direction, argument, value) event - whoever makes the call
(probe driver, filter-bank constructors) - and check it online against an independent
reference (vf/oracle/scales_ref.py).  The recorded trace is then checked offline for
monotonicity, round trips and continuity across the Bark break points.
"""
import math

import numpy as np

from .. import monitor
from ..common import rng_for, split
from ..oracle import scales_ref as R

LEVEL = "exploration"
TECHNIQUE = "runtime monitor on the real scale methods: online reference-model oracle + offline trace checker (monotonicity, round trip, continuity); ambient-settings monitor (stateless calls repeated under -W error and np.errstate raise)"
RULE = (
    "probes: seeded log-uniform/uniform/integer/special-point frequencies in [0,1e5] Hz (from low_hz for octave) and "
    "scale values in the image, per (class, parameters); every monitored call is one evaluation; a probe is "
    "non-trivial when its argument is strictly inside the domain (not 0 / not low_hz) and distinct by (class, params, direction, argument)"
)
ASSUMPTIONS = [
    "arguments are finite Python/NumPy float scalars (the Bark implementation branches on scalars)",
    "linear slope_hz > 0 (a negative slope is a decreasing map by definition)",
    "tolerances: reference equality 1e-12 relative + 1e-10 absolute; round trip 1e-9*max(1,|x|)",
]
LEVEL_TEXT = (
    "Held on every monitored call of the run: ~2e5 (quick) / ~6e6 (thorough) real hertz_to_scale/scale_to_hertz calls on all four "
    "classes compared online with an independent implementation of the published formulas, plus offline monotonicity/round-trip/"
    "continuity checks over the recorded trace. Sampling, not proof: the functions are scalar closed forms, so dense seeded probing "
    "with 1 ulp / 1e-12 / 1e-9 brackets of the Bark break points is the strongest thing runtime monitoring can give."
)
LEVEL_NOTE = "Trusts the math module and the reference formulas in vf/oracle/scales_ref.py; real-valued quantifier is sampled."
ANCHOR_FILES = ("src/pydrobert/speech/scales.py",)
EXHAUSTIVE_PARTS = []
SUITE_TESTS = ['tests/test_scales.py', 'tests/test_filters.py']  # the repository's own tests as an extra monitored workload (thorough tier)

REL_REF, ABS_REF = 1e-12, 1e-10
RT = 1e-9


def _key(obj):
    from pydrobert.speech import scales as S

    if isinstance(obj, S.MelScaling):
        return ("mel", ())
    if isinstance(obj, S.BarkScaling):
        return ("bark", ())
    if isinstance(obj, S.LinearScaling):
        return ("linear", (("low_hz", float(obj.low_hz)), ("slope_hz", float(obj.slope_hz))))
    if isinstance(obj, S.OctaveScaling):
        return ("octave", (("low_hz", float(obj.low_hz)),))
    return None


class ScaleMonitor:
    def __init__(self, rec, case=None):
        self.rec = rec
        self.case = case
        self.trace = {}  # key -> {"fwd": [(arg, val)], "inv": [...]}

    def attach(self):
        from pydrobert.speech import scales as S

        _EXTRA_ATTACHED.clear()
        for cls in (S.LinearScaling, S.OctaveScaling, S.MelScaling, S.BarkScaling):
            monitor.attach(cls, "hertz_to_scale", post=lambda c: self.post(c, "fwd"), ambient=self.ambient_v)
            monitor.attach(cls, "scale_to_hertz", post=lambda c: self.post(c, "inv"), ambient=self.ambient_v)

    def ambient_v(self, what, **kw):
        self.rec.violation(dict(what=what, case=self.case, **kw))

    def post(self, c, direction):
        key = _key(c.self)
        if key is None or c.exc is not None or not c.args:
            if c.exc is not None and key is not None:
                self.rec.count("calls_that_raised")
            return
        arg = c.args[0]
        try:
            x = float(arg)
            v = float(c.result)
        except (TypeError, ValueError):
            self.rec.count("non_scalar_calls")
            return
        if not math.isfinite(x):
            return
        name, params = key
        # domain of the statement
        pd = dict(params)
        if direction == "fwd":
            lo = pd["low_hz"] if name == "octave" else 0.0
            if not (lo <= x <= 1e5):
                self.rec.count("out_of_domain_calls")
                return
        self.rec.ev()
        self.rec.count("events_%s_%s" % (name, direction))
        fwd, inv = R.ref_pair(name, pd)
        if name == "octave" and pd["low_hz"] < 1e-10:
            # the library floors low_hz at 1e-10 inside both maps; the statement asks such a scale for mutual
            # inverses, strict growth and continuity, not for a particular origin: recorded for the trace only
            self.rec.count("octave_below_library_floor_not_compared_with_formula")
            self.trace.setdefault(key, {"fwd": [], "inv": []})[direction].append((x, v))
            self.rec.nt((name, params, direction, x))
            return
        try:
            want = fwd(x) if direction == "fwd" else inv(x)
        except (ValueError, ZeroDivisionError, OverflowError):
            self.rec.count("reference_undefined")
            return
        if direction == "inv" and not (-1e-9 <= want <= 1e5 * (1 + 1e-9)):
            # scale value outside the image of the domain
            self.rec.count("out_of_image_calls")
            return
        if not (abs(v - want) <= REL_REF * abs(want) + ABS_REF):
            self.rec.violation({
                "what": "%s.%s(%r) = %r, published formula gives %r" % (name, "hertz_to_scale" if direction == "fwd" else "scale_to_hertz", x, v, want),
                "check": "reference", "cls": name, "params": pd, "direction": direction, "arg": x, "got": v, "want": want,
                "case": self.case,
            })
        self.trace.setdefault(key, {"fwd": [], "inv": []})[direction].append((x, v))
        if (direction == "fwd" and x > (pd.get("low_hz", 0.0) if name == "octave" else 0.0)) or direction == "inv":
            self.rec.nt((name, params, direction, x))

    # ---- offline checks over the recorded trace
    def check_trace(self):
        for key, tr in self.trace.items():
            name, params = key
            for direction in ("fwd", "inv"):
                ev = sorted(set(tr[direction]))
                self.rec.count("trace_pairs_checked_monotone", max(0, len(ev) - 1))
                for (x1, v1), (x2, v2) in zip(ev, ev[1:]):
                    if x2 == x1:
                        # (the same number handed over as a Python float, a NumPy scalar or a 0-d array may go through
                        # different but equally valid power / log routines: equal to a few units in the last place)
                        if abs(v1 - v2) > 4 * np.finfo(float).eps * max(abs(v1), abs(v2)):
                            self._viol(name, params, direction, "determinism", x1, "same argument gave %r and %r" % (v1, v2))
                        continue
                    gap = x2 - x1
                    if gap > 1e-9 * max(1.0, abs(x1)):
                        if not v2 > v1:
                            self._viol(name, params, direction, "monotone", x1, "f(%r)=%r but f(%r)=%r: not strictly increasing" % (x1, v1, x2, v2))
                    elif v2 < v1 - 1e-12 * max(1.0, abs(v1)):
                        self._viol(name, params, direction, "monotone", x1, "f(%r)=%r > f(%r)=%r at sub-resolution spacing" % (x1, v1, x2, v2))

    def _viol(self, name, params, direction, check, arg, what):
        self.rec.violation({"what": "%s %s: %s" % (name, direction, what), "check": check, "cls": name, "params": dict(params),
                            "direction": direction, "arg": arg, "case": self.case})


_EXTRA_ATTACHED = set()


def _build(name, params, how=None, mon=None):
    """how=None: the class itself.  Otherwise the scale as configurations and filter banks obtain it - by its documented alias
    ("from_alias", "factory_str" where no argument is needed, "factory_dict").  Whatever object the alias gives is judged against
    the same published formula: if it is of a class that overrides the two maps, the monitor is attached to those overrides too."""
    from pydrobert.speech import scales as S
    from pydrobert.speech.alias import alias_factory_subclass_from_arg

    cls = {"mel": S.MelScaling, "bark": S.BarkScaling, "linear": S.LinearScaling, "octave": S.OctaveScaling}[name]
    if how is None:
        return cls(**params)
    alias = {"mel": "mel", "bark": "bark", "linear": "uniform" if how == "factory_dict" else "linear", "octave": "octave"}[name]
    if how == "from_alias":
        obj = S.ScalingFunction.from_alias(alias, **params)
    elif how == "factory_str" and not params:
        obj = alias_factory_subclass_from_arg(S.ScalingFunction, alias)
    else:
        obj = alias_factory_subclass_from_arg(S.ScalingFunction, dict(params, name=alias))
    if mon is not None:
        mon.rec.count("scales_obtained_by_alias")
        if not isinstance(obj, cls):
            mon.rec.violation({"what": "the documented alias %r gives a %s, which is not a %s" % (alias, type(obj).__name__, cls.__name__), "check": "alias_class", "cls": name,
                               "params": dict(params), "case": mon.case})
        elif type(obj) is not cls:
            for k in type(obj).__mro__:
                if k is cls:
                    break
                for meth, d in (("hertz_to_scale", "fwd"), ("scale_to_hertz", "inv")):
                    if meth in k.__dict__ and (k, meth) not in _EXTRA_ATTACHED:
                        _EXTRA_ATTACHED.add((k, meth))
                        monitor.attach(k, meth, post=lambda c, d=d: mon.post(c, d))
    return obj


def _probes(case):
    rng = rng_for(case["seed"], "C19", case["idx"])
    name, params, n = case["cls"], case["params"], case["n"]
    lo = params["low_hz"] if name == "octave" else 0.0
    hi = 1e5
    parts = [
        np.exp(rng.uniform(np.log(max(lo, 1e-6)), np.log(hi), n // 3)),
        rng.uniform(lo, hi, n // 3),
        rng.integers(int(math.ceil(lo)), 8001, n // 6).astype(float),
    ]
    special = [lo, hi, 1000.0, max(lo, 20.0), 8000.0] + [float(v) for v in range(int(math.ceil(lo)), int(math.ceil(lo)) + 130, 3) if v <= hi]
    for b in R.BARK_BREAKS_HZ:
        if b > lo:
            special += [b, np.nextafter(b, 0), np.nextafter(b, 1e9), b * (1 - 1e-9), b * (1 + 1e-9), b - 1e-3, b + 1e-3,
                        b * (1 - 1e-12), b * (1 + 1e-12)]
    fs = np.concatenate(parts + [np.array(special)])
    fs = fs[(fs >= lo) & (fs <= hi)]
    # dense local clusters: neighbours at tiny spacings test strictness
    c = rng.choice(fs, size=min(len(fs), max(1, n // 12)))
    fs = np.concatenate([fs, np.clip(c * (1 + 2e-9), lo, hi), np.clip(c + 1e-6, lo, hi)])
    return fs


def run_case(case, rec, mon=None):
    own = mon is None
    if own:
        monitor.detach_all()
        mon = ScaleMonitor(rec, case)
        mon.attach()
    mon.case = case
    kind = case["kind"]
    if kind == "grid":
        name, params = case["cls"], case["params"]
        sc = _build(name, params, case.get("how"), mon)
        if case.get("copy") is not None:
            from ..common import copied, COPY_WAYS

            sc = copied(sc, COPY_WAYS[case["copy"]])  # the scale as a copied / pickled bank carries it
            rec.count("scales_used_through_a_" + COPY_WAYS[case["copy"]])
        if case["idx"] % 4 == 1:
            from ..common import poke

            poke(sc)
            rec.count("scales_inspected_before_use")
        fwd, inv = R.ref_pair(name, params)
        fs = _probes(case)
        use_np = case.get("np_scalar", False)
        int_types = [int, np.int64, np.int32, np.int16, np.uint16, np.int8, np.uint8]
        # scale values handed to scale_to_hertz as narrow NumPy integers (an index into a table of whole-numbered scale values)
        if name in ("linear", "mel", "bark") or (name == "octave" and params["low_hz"] >= 1e-10):  # (below 1e-10 the library floors low_hz: only the inverse pair is asked of such a scale)
            for typed in (np.int8(100), np.int8(-100), np.uint8(5), np.uint8(250), np.int16(3), np.int16(20000), np.uint16(50000), np.int32(7)):
                sv = float(typed)
                try:
                    want_hz = inv(sv)
                except Exception:
                    continue
                if not (np.isfinite(want_hz) and abs(want_hz) < 1e12):
                    continue
                rec.count("integer_typed_scale_arguments")
                try:
                    got_hz = float(sc.scale_to_hertz(typed))
                except Exception as e:
                    rec.violation({"what": "%s.scale_to_hertz(%r) raised %r" % (name, typed, e), "check": "raise", "cls": name, "params": params, "arg": sv, "case": case})
                    continue
                if not abs(got_hz - want_hz) <= 1e-9 * max(1.0, abs(want_hz)):
                    rec.violation({"what": "%s.scale_to_hertz(%r) = %r, published formula gives %r" % (name, typed, got_hz, want_hz), "check": "reference", "cls": name,
                                   "params": params, "direction": "inv", "arg": sv, "case": case})
        # frequencies near the top of the narrow integer types (the domain reaches 1e5 Hz)
        for typed in (np.int16(30900), np.int16(32767), np.uint16(33000), np.uint16(64000), np.uint16(65535), np.int32(99999), np.uint8(255), np.int8(127)):
            if float(typed) >= (params["low_hz"] if name == "octave" else 0.0):
                rec.count("integer_typed_arguments")
                try:
                    sz = sc.hertz_to_scale(typed)
                    back = float(sc.scale_to_hertz(sz))
                    if not abs(back - float(typed)) <= RT * max(1.0, float(typed)):
                        rec.violation({"what": "%s: scale_to_hertz(hertz_to_scale(%r)) = %r" % (name, typed, back), "check": "roundtrip_fsf", "cls": name, "params": params,
                                       "arg": float(typed), "case": case})
                except Exception as e:
                    rec.violation({"what": "%s.hertz_to_scale(%r) raised %r" % (name, typed, e), "check": "raise", "cls": name, "params": params, "arg": float(typed), "case": case})
        if name != "octave":
            # 0 Hz is in the domain, however it is written
            for zero in (0, 0.0, np.float64(0), np.int64(0), np.array(0.0)):
                rec.count("zero_hertz_spellings")
                try:
                    sz = sc.hertz_to_scale(zero)
                    back = float(sc.scale_to_hertz(sz))
                    if not abs(back) <= RT:
                        rec.violation({"what": "%s: scale_to_hertz(hertz_to_scale(%r)) = %r" % (name, zero, back), "check": "roundtrip_fsf", "cls": name, "params": params, "arg": 0.0, "case": case})
                except Exception as e:
                    rec.violation({"what": "%s.hertz_to_scale(%r) raised %r" % (name, zero, e), "check": "raise", "cls": name, "params": params, "arg": 0.0, "case": case})

        def as_int(k, v):
            """v (whole) in the k-th integer type that can hold it"""
            for t in int_types[k % len(int_types):] + int_types:
                if t is int or np.iinfo(t).min <= v <= np.iinfo(t).max:
                    return t(v)
        for j, f in enumerate(fs):
            f = float(f)
            arg = np.float64(f) if use_np else f
            if f == int(f) and j % 2 == 0:
                # a whole number of Hertz handed over as an integer type
                arg = as_int(j // 2, int(f))
                rec.count("integer_typed_arguments")
            if j % 7 == 3:
                arg = np.array(f)  # the number as a 0-d array: still one real number, and the caller's own object
                rec.count("zero_dimensional_array_arguments")
            s = sc.hertz_to_scale(arg)
            if isinstance(arg, np.ndarray) and float(arg) != f:
                rec.violation({"what": "%s.hertz_to_scale changed the 0-d array it was given (%r -> %r)" % (name, f, float(arg)), "check": "argument_modified", "cls": name,
                               "params": params, "arg": f, "case": case})
            if j % 7 == 3:
                s = np.array(float(s))
                s0 = float(s)
            f2 = sc.scale_to_hertz(s)
            if j % 7 == 3 and float(s) != s0:
                rec.violation({"what": "%s.scale_to_hertz changed the 0-d array it was given (%r -> %r)" % (name, s0, float(s)), "check": "argument_modified", "cls": name,
                               "params": params, "arg": s0, "case": case})
            rec.count("roundtrips_f_s_f")
            if not abs(float(f2) - f) <= RT * max(1.0, abs(f)):
                rec.violation({"what": "%s: scale_to_hertz(hertz_to_scale(%r)) = %r" % (name, f, float(f2)), "check": "roundtrip_fsf",
                               "cls": name, "params": params, "arg": f, "case": case})
        # scale-side probes over the image
        s_lo, s_hi = fwd(params["low_hz"] if name == "octave" else 0.0), fwd(1e5)
        rng = rng_for(case["seed"], "C19", case["idx"], 1)
        ss = list(rng.uniform(s_lo, s_hi, max(4, case["n"] // 3)))
        if name == "bark":
            for b in R.BARK_BREAKS_SCALE:
                ss += [b, np.nextafter(b, 0), np.nextafter(b, 99), b - 1e-9, b + 1e-9, b - 1e-3, b + 1e-3]
        ss += [s_lo, s_hi]
        # scale values as people write them: one and two decimals (0.3, 1.25, ...), as literals and as quotients
        tenths = [k / 10 for k in range(int(math.ceil(s_lo * 10)), int(math.floor(s_hi * 10)) + 1)]
        if len(tenths) > 300:
            tenths = [tenths[i] for i in sorted(rng.choice(len(tenths), 300, replace=False))]
        ss += tenths + [round(float(v), 2) for v in rng.uniform(s_lo, min(s_hi, s_lo + 3.0), 40)] + [round(float(v), 2) for v in rng.uniform(s_lo, s_hi, 40)]
        rec.count("scale_values_with_one_or_two_decimals", len(tenths) + 80)
        whole = np.arange(math.ceil(s_lo), math.floor(s_hi) + 1)
        if len(whole) > 60:
            whole = rng.choice(whole, 60, replace=False)
        ss += [as_int(k, int(w)) for k, w in enumerate(whole)]  # whole scale values as integer types
        rec.count("integer_typed_arguments", len(whole))
        for s in ss:
            f = sc.scale_to_hertz(s)
            s = float(s)
            s2 = sc.hertz_to_scale(f)
            rec.count("roundtrips_s_f_s")
            if not abs(float(s2) - s) <= RT * max(1.0, abs(s)):
                rec.violation({"what": "%s: hertz_to_scale(scale_to_hertz(%r)) = %r" % (name, s, float(s2)), "check": "roundtrip_sfs",
                               "cls": name, "params": params, "arg": s, "case": case})
        if name == "bark":
            # continuity: one-sided values at the break points agree to within a Lipschitz bound
            for b in R.BARK_BREAKS_HZ:
                for d in (0.0, 1e-12 * b, 1e-9 * b, 1e-6):
                    a1 = np.nextafter(b, 0) - d
                    a2 = np.nextafter(b, 1e9) + d
                    v1, v2 = float(sc.hertz_to_scale(a1)), float(sc.hertz_to_scale(a2))
                    L = 2 * 1.22 * 26.81 * 1960.0 / (1960.0 + b) ** 2
                    rec.count("continuity_probes")
                    if not abs(v2 - v1) <= L * (a2 - a1) + 1e-11:
                        rec.violation({"what": "bark hertz_to_scale jumps by %g across %r Hz" % (v2 - v1, b), "check": "continuity",
                                       "cls": name, "params": params, "arg": b, "case": case})
            for b in R.BARK_BREAKS_SCALE:
                for d in (0.0, 1e-12, 1e-9, 1e-6):
                    a1 = np.nextafter(b, 0) - d
                    a2 = np.nextafter(b, 99) + d
                    v1, v2 = float(sc.scale_to_hertz(a1)), float(sc.scale_to_hertz(a2))
                    L = 2 * (1960.0 * 26.81 / (26.28 - b) ** 2) / 0.85
                    rec.count("continuity_probes")
                    if not abs(v2 - v1) <= L * (a2 - a1) + 1e-9:
                        rec.violation({"what": "bark scale_to_hertz jumps by %g across scale %r" % (v2 - v1, b), "check": "continuity",
                                       "cls": name, "params": params, "arg": b, "case": case})
        if name == "mel":
            v = float(sc.hertz_to_scale(1000.0))
            rec.count("published_anchor_points")
            if not abs(v - 1000.0) <= 0.02:
                rec.violation({"what": "mel(1000 Hz) = %r, published scale has 1000 Hz = 1000 mel" % v, "check": "anchor", "cls": name,
                               "params": params, "arg": 1000.0, "case": case})
        rec.sample({"kind": kind, "cls": name, "params": params, "first_probes_hz": [float(x) for x in fs[:4]], "n_probes": int(len(fs))})
    elif kind == "mutate":
        # low_hz / slope_hz are documented public attributes: both directions must follow a later assignment
        from pydrobert.speech import scales as S

        rng = rng_for(case["seed"], "C19", case["idx"])
        for _ in range(case["n"]):
            if rng.random() < 0.5:
                sc = S.OctaveScaling(float(rng.uniform(5, 200)))
                new = {"low_hz": float(rng.uniform(5, 200))}
            else:
                sc = S.LinearScaling(float(rng.uniform(-100, 100)), float(np.exp(rng.uniform(-2, 2))))
                new = {"low_hz": float(rng.uniform(-100, 100)), "slope_hz": float(np.exp(rng.uniform(-2, 2)))}
            f0 = float(rng.uniform(250, 4000))
            sc.scale_to_hertz(sc.hertz_to_scale(f0))
            for k, v in new.items():
                setattr(sc, k, v)
            rec.count("instances_reparametrised_after_construction")
            for f in (f0, float(rng.uniform(250, 4000)), max(new["low_hz"], 250.0)):
                s_ = sc.hertz_to_scale(f)
                f2 = sc.scale_to_hertz(s_)
                if not abs(float(f2) - f) <= RT * max(1.0, abs(f)):
                    rec.violation({"what": "%s after assigning %r: scale_to_hertz(hertz_to_scale(%r)) = %r" % (type(sc).__name__, new, f, float(f2)), "check": "roundtrip_fsf",
                                   "cls": type(sc).__name__, "params": new, "arg": f, "case": case})
        rec.sample({"kind": kind, "n": case["n"]})
    elif kind == "together":
        # several scales of one class with different parameters alive in one program and used in turn (the banks of a multi-resolution
        # front end): each is the scale its own constructor arguments describe - judged against those, not against what the object reports
        from pydrobert.speech import scales as S

        rng = rng_for(case["seed"], "C19", case["idx"])
        for _ in range(case["n"]):
            name = str(rng.choice(["octave", "linear"]))
            K = int(rng.integers(2, 6))
            plist = []
            for k in range(K):
                if name == "octave":
                    plist.append({"low_hz": float(rng.choice([20.0, 27.5, 55.0, 110.0, float(rng.uniform(5, 300))]))})
                else:
                    plist.append({"low_hz": float(rng.uniform(-200, 200)), "slope_hz": float(np.exp(rng.uniform(-2, 2)))})
            hows = [None, None, "from_alias", "factory_dict"]
            objs = [_build(name, dict(pr), hows[int(rng.integers(len(hows)))], mon) for pr in plist]
            refs = [R.ref_pair(name, pr) for pr in plist]
            rec.count("groups_of_scales_alive_together")
            for rnd in range(3):
                for k in rng.permutation(K):
                    sc, pr, (fwd, inv) = objs[k], plist[k], refs[k]
                    f = float(rng.uniform(max(pr["low_hz"], 1.0) * 1.01, 8000.0))
                    rec.ev()
                    try:
                        sv = float(sc.hertz_to_scale(f))
                        back = float(sc.scale_to_hertz(sv))
                        want_s = fwd(f)
                        hz = float(sc.scale_to_hertz(want_s))
                    except Exception as e:
                        rec.violation({"what": "%s(%r) used next to %d other scales raised %r" % (name, pr, K - 1, e), "check": "raise", "cls": name, "params": pr, "arg": f, "case": case})
                        continue
                    if not abs(sv - want_s) <= REL_REF * abs(want_s) + ABS_REF:
                        rec.violation({"what": "%s(%r).hertz_to_scale(%r) = %r while %d other scales of the class are alive; the formula with its own parameters gives %r"
                                               % (name, pr, f, sv, K - 1, want_s), "check": "reference_together", "cls": name, "params": pr, "direction": "fwd", "arg": f, "case": case})
                    elif not (abs(back - f) <= RT * max(1.0, abs(f)) and abs(hz - f) <= RT * max(1.0, abs(f))):
                        rec.violation({"what": "%s(%r): scale_to_hertz(hertz_to_scale(%r)) = %r while %d other scales of the class are alive" % (name, pr, f, back, K - 1),
                                       "check": "roundtrip_together", "cls": name, "params": pr, "arg": f, "case": case})
            if rng.random() < 0.5:
                # ... and what each reports about itself is what it was given
                for sc, pr in zip(objs, plist):
                    for kk, vv in pr.items():
                        if float(getattr(sc, kk)) != vv:
                            rec.violation({"what": "%s built with %r reports %s = %r after other scales of the class were built" % (name, pr, kk, getattr(sc, kk)),
                                           "check": "attribute_together", "cls": name, "params": pr, "case": case})
        rec.sample({"kind": kind, "n": case["n"]})
    elif kind == "octave_reject":
        from pydrobert.speech.scales import OctaveScaling

        bad, good = list(case["bad"]), list(case["good"])
        if case.get("typed"):
            # the same contract when the number arrives as a NumPy scalar or a 0-d array
            bad += [np.int64(0), np.int32(-7), np.uint8(0), np.float32(0), np.float32(-1.5), np.float16(-2), np.array(0.0), np.array(-3), np.int8(-1), np.float64(-0.0)]
            good += [np.float32(20), np.int64(5), np.uint8(200), np.array(3.0), np.float16(0.5)]
        for low in bad:
            rec.ev()
            rec.count("octave_constructor_rejections_tried")
            try:
                OctaveScaling(low)
            except ValueError:
                continue
            except Exception as e:  # wrong exception type
                rec.violation({"what": "OctaveScaling(%r) raised %r, not ValueError" % (low, e), "check": "octave_reject", "arg": repr(low), "case": case})
                continue
            rec.violation({"what": "OctaveScaling(low_hz=%r) was accepted" % (low,), "check": "octave_reject", "arg": repr(low), "case": case})
        for low in good:
            rec.ev()
            try:
                OctaveScaling(low)
            except Exception as e:
                rec.violation({"what": "OctaveScaling(low_hz=%r) rejected: %r" % (low, e), "check": "octave_accept", "arg": repr(low), "case": case})
        rec.nt(("octave_reject", tuple(case["bad"])))
        rec.nt(("octave_accept", tuple(case["good"])))
        # the same refusals in an interpreter started with -O (assert statements and __debug__ blocks are gone there; a documented
        # ValueError is not an assertion)
        import subprocess
        import sys

        code = ("import sys\nfrom pydrobert.speech.scales import OctaveScaling\nbad = []\n"
                "for low in (0, 0.0, -0.0, -1, -1e-300, -20.0, -1e9):\n"
                "    try:\n        OctaveScaling(low)\n        bad.append(repr(low) + ' accepted')\n"
                "    except ValueError:\n        pass\n    except Exception as e:\n        bad.append(repr(low) + ' raised ' + type(e).__name__)\n"
                "assert False, 'asserts are on'\nprint('OPT', sys.flags.optimize, ';'.join(bad))\n")
        for flag in ("-O", "-OO"):
            try:
                r = subprocess.run([sys.executable, flag, "-c", code], capture_output=True, text=True, timeout=120)
            except Exception as e:
                rec.note("python %s not runnable: %r" % (flag, e))
                continue
            line = next((l for l in r.stdout.splitlines() if l.startswith("OPT ")), None)
            if line is None:
                rec.note("python %s gave no verdict: %s" % (flag, (r.stderr or "")[-200:]))
                continue
            rec.ev()
            rec.count("octave_rejections_tried_under_python_dash_O")
            what = line.split(" ", 2)[2] if len(line.split(" ", 2)) > 2 else ""
            if what:
                rec.violation({"what": "under python %s: OctaveScaling %s (documented: ValueError)" % (flag, what), "check": "octave_reject", "arg": flag, "case": case})
        # many octave scales, one after the other, each dropped before the next is made (object ids are reused): each is its own
        import gc

        for k in range(200):
            low = float(10 ** (-2 + 5 * ((k * 37) % 200) / 200.0))
            sc = OctaveScaling(low)
            sc.hertz_to_scale(low)          # 0 octaves above low_hz (judged by the monitor)
            sc.scale_to_hertz(sc.hertz_to_scale(3.0 * low))
            del sc
            if k % 16 == 0:
                gc.collect()
        rec.count("octave_scales_made_and_dropped_in_sequence", 200)
    elif kind == "banks":
        # organic events: filter-bank constructors call the scale methods themselves
        from pydrobert.speech import filters as F

        rng = rng_for(case["seed"], "C19", case["idx"])
        for _ in range(case["n"]):
            scale = [("mel", {}), ("bark", {}), ("linear", {"low_hz": float(rng.uniform(0, 50))}),
                     ("octave", {"low_hz": float(rng.uniform(10, 60))})][int(rng.integers(4))]
            rate = float(rng.choice([8000, 16000, 22050]))
            low = float(rng.uniform(60, 300))
            high = float(rng.uniform(low + 500, rate / 2))
            nf = int(rng.integers(1, 30))
            cls = [F.TriangularOverlappingFilterBank, F.GaborFilterBank, F.ComplexGammatoneFilterBank][int(rng.integers(3))]
            cls(_build(*scale), num_filts=nf, high_hz=high, low_hz=low, sampling_rate=rate)
            rec.count("banks_constructed")
    if own:
        mon.check_trace()
        monitor.report(rec)
        monitor.detach_all()


def _cases(tier, seed):
    n = 1500 if tier == "quick" else 24000
    reps = 8 if tier == "quick" else 16
    cases = []
    idx = 0
    prng = rng_for(seed, "C19", 999)
    for rep in range(reps):
        cfgs = [("mel", {}), ("bark", {})]
        cfgs.append(("linear", {"low_hz": float(prng.uniform(-1000, 1000)), "slope_hz": float(np.exp(prng.uniform(np.log(1e-3), np.log(1e3))))}))
        cfgs.append(("linear", {"low_hz": 0.0, "slope_hz": 1.0}))
        cfgs.append(("octave", {"low_hz": float(np.exp(prng.uniform(np.log(1e-2), np.log(2e3))))}))
        cfgs.append(("octave", {"low_hz": 20.0}))
        if rep % 2 == 1:
            cfgs.append(("linear", {"low_hz": int(prng.integers(1, 200)), "slope_hz": int(prng.integers(1, 4))}))  # whole-number parameters as Python ints
            cfgs.append(("octave", {"low_hz": int(prng.integers(1, 100))}))
        if rep % 2 == 0:
            # any positive low_hz is accepted, however small
            cfgs.append(("octave", {"low_hz": 1e-12 if rep % 4 == 0 else float(10 ** prng.uniform(-14, -2))}))
        for k, (name, params) in enumerate(cfgs):
            # how the object is obtained (the class itself / its documented alias) and whether it is used through a copy rotate over the configurations
            cases.append({"kind": "grid", "cls": name, "params": params, "n": n, "seed": seed, "idx": idx, "np_scalar": bool(rep % 2),
                          "how": [None, "from_alias", None, "factory_dict", None, "factory_str"][(rep + k) % 6], "copy": (rep + k) % 3 if (rep + 2 * k) % 3 == 1 else None})
            idx += 1
    for k in range(2 if tier == "quick" else 16):
        cases.append({"kind": "mutate", "n": 40, "seed": seed, "idx": idx})
        idx += 1
    for k in range(2 if tier == "quick" else 16):
        cases.append({"kind": "together", "n": 25, "seed": seed, "idx": idx})
        idx += 1
    cases.append({"kind": "octave_reject", "bad": [0, 0.0, -0.0, -1, -1e-300, -20.0, -1e9], "good": [1e-300, 1e-3, 1.0, 20.0, 4000.0], "typed": True, "seed": seed, "idx": idx})
    idx += 1
    for k in range(2 if tier == "quick" else 16):
        cases.append({"kind": "banks", "n": 10, "seed": seed, "idx": idx})
        idx += 1
    return cases


def plan(tier, seed):
    cases = _cases(tier, seed)
    # interleave so that every shard sees every class
    nsh = 8 if tier == "quick" else 16
    return [{"cases": cases[i::nsh]} for i in range(nsh) if cases[i::nsh]]


def run_shard(spec, rec):
    if "suite" in spec:
        from .. import suite

        return suite.run(__name__.rsplit(".", 1)[-1], spec, rec)
    mon = ScaleMonitor(rec)
    mon.attach()
    for case in spec["cases"]:
        run_case(case, rec, mon)
    mon.check_trace()
    monitor.report(rec)
    monitor.detach_all()


def finish(rec):
    monitor.require(rec, [c + "." + m for c in ("MelScaling", "BarkScaling", "LinearScaling", "OctaveScaling")
                          for m in ("hertz_to_scale", "scale_to_hertz")])
    for k in ("roundtrips_f_s_f", "roundtrips_s_f_s", "continuity_probes", "trace_pairs_checked_monotone", "banks_constructed", "instances_reparametrised_after_construction"):
        if not rec.counters[k]:
            rec.inconc("check %s never ran" % k)


def classify(w):
    return None
