"""C08 - alias / JSON configuration builds the same objects as explicit construction.

Parts:
  registry   exhaustive in-process walk of the six abstract families: every concrete class x
             every alias resolves to exactly that class (monitor on AliasedFactory.from_alias
             with an independent "last registered wins" oracle that keeps its own registration
             clock through __init_subclass__); unknown / empty aliases raise ValueError
  factory    alias_factory_subclass_from_arg: instance identity, str, mappings with alias /
             name / both (harness class whose constructor accepts name=), mapping types,
             mapping unchanged
  shadowing  registration is global state, so every scenario (sequence of class definitions
             and look-ups) runs in a fresh interpreter; expected winner = the matching class
             whose class statement executed last
  trees      random nested JSON-round-tripped configurations vs explicitly constructed twins:
             bit-identical features, configuration unchanged
"""
import copy
import json
import tempfile
import shutil
import os
import subprocess
import sys
import types
from collections import OrderedDict

import numpy as np

from .. import gen, monitor
from ..common import rng_for, split

LEVEL = "exploration"
TECHNIQUE = "exhaustive registry walk under a from_alias monitor with an own registration clock; shadowing scenarios in fresh interpreters; alias-built vs explicitly built twins compared bit for bit"
RULE = (
    "registry: every (family, concrete class, alias) triple [exhaustive]; factory: fixed matrix of argument kinds x mapping types; shadowing: 12 directed scenarios "
    "+ seeded random class trees (3-7 classes, random bases, alias collisions, look-ups interleaved with registrations, aliases given as set/list/tuple/frozenset/"
    "dict); trees: seeded nested configurations (scale as str / {alias} / {name}, bank dict, window str / dict, computer dict) through json.dumps/loads; "
    "non-trivial = a scenario with an alias collision or a tree of depth 3 whose computer yields >= 1 frame; distinct by scenario / configuration text"
)
ASSUMPTIONS = [
    "'registered' means the class statement was executed; harness classes always define their own `aliases` (a class that merely inherits the attribute is not counted as sharing an alias)",
    "explicit twins are built by calling the classes directly from a name->class table of the harness, never through the alias machinery",
]
ANCHOR_FILES = ("src/pydrobert/speech/alias.py", "src/pydrobert/speech/compute.py", "src/pydrobert/speech/filters.py", "src/pydrobert/speech/scales.py",
                "src/pydrobert/speech/pre.py", "src/pydrobert/speech/post.py")
EXHAUSTIVE_PARTS = ["every registered concrete class x every alias of the six families", "the argument-kind x mapping-type matrix of alias_factory_subclass_from_arg"]
LEVEL_TEXT = (
    "The registry is enumerated completely on every run; precedence is exercised by directed and random registration/look-up sequences, each in a fresh "
    "interpreter, against a 'last class statement wins' oracle; nested configurations are compared with explicit twins bit for bit. Exhaustive for the "
    "registry, sampled for scenarios and trees."
)
LEVEL_NOTE = "Trusts Python's class creation order as observed through __init_subclass__ / the scenario script's own bookkeeping."

FAMILIES = ["scales.ScalingFunction", "filters.LinearFilterBank", "filters.WindowFunction", "compute.FrameComputer", "pre.PreProcessor", "post.PostProcessor"]
BANK = {"name": "tri", "scaling_function": "mel", "num_filts": 2, "sampling_rate": 1000, "low_hz": 20.0, "high_hz": 480.0}
MINIMAL = {
    "LinearScaling": {"low_hz": 0.0}, "OctaveScaling": {"low_hz": 20.0}, "MelScaling": {}, "BarkScaling": {},
    "TriangularOverlappingFilterBank": {"scaling_function": "mel", "num_filts": 2, "sampling_rate": 1000, "high_hz": 480.0},
    "Fbank": {"num_filts": 2, "sampling_rate": 1000, "high_hz": 480.0},
    "GaborFilterBank": {"scaling_function": "mel", "num_filts": 2, "sampling_rate": 1000, "high_hz": 480.0},
    "ComplexGammatoneFilterBank": {"scaling_function": "mel", "num_filts": 2, "sampling_rate": 1000, "high_hz": 480.0},
    "BartlettWindow": {}, "BlackmanWindow": {}, "HammingWindow": {}, "HannWindow": {}, "GammaWindow": {},
    "ShortTimeFourierTransformFrameComputer": {"bank": BANK, "frame_length_ms": 8.5, "frame_shift_ms": 3.5},
    "ShortIntegrationFrameComputer": {"bank": {"name": "gabor", "scaling_function": "mel", "num_filts": 2, "sampling_rate": 1000, "low_hz": 0.0, "high_hz": 500.0}, "frame_shift_ms": 2.5},
    "Dither": {}, "Preemphasize": {}, "Standardize": {}, "Deltas": {"num_deltas": 1}, "Stack": {"num_vectors": 2},
}


# The documented aliases of the library classes (class attribute `aliases`, marked "#:" for the API docs), family by family.
# Used only to decide which names are FOREIGN to a family: an alias documented for another family and not for this one
# must be unknown here, whatever the classes' alias containers hold at run time (they may have been shared or mutated).
DOCUMENTED = {
    "scales.ScalingFunction": {"bark": "BarkScaling", "mel": "MelScaling", "octave": "OctaveScaling", "uniform": "LinearScaling", "linear": "LinearScaling"},
    "filters.LinearFilterBank": {"tonebank": "ComplexGammatoneFilterBank", "gammatone": "ComplexGammatoneFilterBank", "gabor": "GaborFilterBank", "fbank": "Fbank",
                                 "triangular": "TriangularOverlappingFilterBank", "tri": "TriangularOverlappingFilterBank"},
    "filters.WindowFunction": {"gamma": "GammaWindow", "hann": "HannWindow", "hanning": "HannWindow", "hamming": "HammingWindow", "blackman": "BlackmanWindow",
                               "black": "BlackmanWindow", "tri": "BartlettWindow", "bartlett": "BartlettWindow", "triangular": "BartlettWindow"},
    "compute.FrameComputer": {"si": "ShortIntegrationFrameComputer", "stft": "ShortTimeFourierTransformFrameComputer"},
    "pre.PreProcessor": {"preemphasis": "Preemphasize", "preemph": "Preemphasize", "preemphasize": "Preemphasize", "dithering": "Dither", "dither": "Dither"},
    "post.PostProcessor": {"stack": "Stack", "deltas": "Deltas", "cmvn": "Standardize", "unit": "Standardize", "normalize": "Standardize", "standardize": "Standardize"},
}


def family(path):
    import importlib

    mod, name = path.split(".")
    return getattr(importlib.import_module("pydrobert.speech." + mod), name)


def names_of(aliases):
    """the alias NAMES a class declares: a collection of strings; a bare string is one name, never a set of fragments"""
    return {aliases} if isinstance(aliases, str) else set(aliases)


def walk(root):
    out, stack = [], [root]
    while stack:
        c = stack.pop()
        out.append(c)
        stack.extend(c.__subclasses__())
    return out


class Mon:
    def __init__(self, rec):
        self.rec = rec
        self.case = None
        self.clock = 0
        self.seq = {}

    def attach(self):
        from pydrobert.speech import alias as A

        monitor.attach(A.AliasedFactory, "from_alias", post=self.post_from_alias, reentrant=True)
        monitor.attach(A, "alias_factory_subclass_from_arg", pre=self.pre_afs, post=self.post_afs, is_method=False, reentrant=True)
        mon = self
        orig = A.AliasedFactory.__dict__.get("__init_subclass__")

        def hook(cls, **kw):
            mon.clock += 1
            mon.seq[cls] = mon.clock
            super(A.AliasedFactory, cls).__init_subclass__(**kw)

        A.AliasedFactory.__init_subclass__ = classmethod(hook)
        self._restore = (A.AliasedFactory, orig)

    def detach(self):
        cls, orig = self._restore
        if orig is None:
            try:
                del cls.__init_subclass__
            except AttributeError:
                pass
        else:
            cls.__init_subclass__ = orig

    def v(self, what, **kw):
        self.rec.violation(dict(what=what, case=self.case, **kw))

    def expected(self, root, alias):
        """last registered class of root's subtree whose OWN aliases contain alias; None if undecidable"""
        cands = []
        for c in walk(root):
            own = c.__dict__.get("aliases")
            try:
                if own is not None and alias in names_of(own):
                    cands.append(c)
                elif own is None and alias in names_of(c.aliases):
                    return "ambiguous"
            except TypeError:
                return "ambiguous"
        if not cands:
            return None
        best = max(self.seq.get(c, 0) for c in cands)
        top = [c for c in cands if self.seq.get(c, 0) == best]
        return top[0] if len(top) == 1 else "ambiguous"

    def post_from_alias(self, c):
        if len(c.args) < 2:
            return
        root, alias = c.args[0], c.args[1]
        self.rec.ev()
        self.rec.count("from_alias_calls")
        try:
            want = self.expected(root, alias)
        except Exception:
            want = "ambiguous"
        if want == "ambiguous":
            self.rec.count("from_alias_ambiguous_skipped")
            return
        info = dict(root=root.__name__, alias=repr(alias))
        if want is None:
            self.rec.count("from_alias_unknown_alias")
            if not isinstance(c.exc, ValueError):
                self.v("%s.from_alias(%r): no class has this alias, got %r instead of ValueError" % (root.__name__, alias, c.exc if c.exc is not None else type(c.result).__name__),
                       check="unknown_alias", **info)
            return
        if c.exc is not None:
            if isinstance(c.exc, ValueError) and str(c.exc) == "Cannot find subclass with alias '%s'" % (alias,):  # (not a nested lookup's failure)
                self.v("%s.from_alias(%r) found nothing; %s has this alias" % (root.__name__, alias, want.__name__), check="resolve", want=want.__name__, **info)
            else:
                self.rec.count("from_alias_constructor_raised")
            return
        if type(c.result) is not want:
            self.v("%s.from_alias(%r) built a %s; the class registered last with this alias is %s" % (root.__name__, alias, type(c.result).__name__, want.__name__),
                   check="resolve", want=want.__name__, got=type(c.result).__name__, **info)

    def pre_afs(self, c):
        arg = c.args[1] if len(c.args) > 1 else c.kwargs.get("arg")
        try:
            return {"copy": copy.deepcopy(dict(arg)) if not isinstance(arg, str) and hasattr(arg, "keys") else None}
        except Exception:
            return {"copy": None}

    def post_afs(self, c):
        arg = c.args[1] if len(c.args) > 1 else c.kwargs.get("arg")
        fam = c.args[0] if c.args else c.kwargs.get("factory_class")
        self.rec.ev()
        self.rec.count("factory_calls")
        if c.state and c.state["copy"] is not None:
            try:
                same = dict(arg) == c.state["copy"] and list(dict(arg)) == list(c.state["copy"])
            except Exception:
                same = True
            if not same:
                self.v("alias_factory_subclass_from_arg modified the mapping it was given: %r -> %r" % (c.state["copy"], dict(arg)), check="mapping_modified")
        if isinstance(arg, fam) and c.result is not arg:
            self.v("alias_factory_subclass_from_arg did not return the instance it was given", check="instance_identity")
        # a string is an alias as it stands (no case folding, no trimming); in a mapping 'alias' goes before 'name'
        alias = None
        if isinstance(arg, str):
            alias = arg
        elif c.state and c.state["copy"] is not None:
            alias = c.state["copy"].get("alias", c.state["copy"].get("name"))
        if isinstance(alias, str) and isinstance(fam, type):
            try:
                want = self.expected(fam, alias)
            except Exception:
                want = "ambiguous"
            self.rec.count("factory_resolutions_judged")
            info = dict(root=fam.__name__, alias=repr(alias), spelled="string" if isinstance(arg, str) else "mapping")
            if want == "ambiguous":
                pass
            elif want is None:
                if not isinstance(c.exc, ValueError):
                    self.v("alias_factory_subclass_from_arg(%s, %r): no class of the family has the alias %r, got %r instead of ValueError" % (
                        fam.__name__, arg, alias, c.exc if c.exc is not None else type(c.result).__name__), check="factory_unknown_alias", **info)
            elif c.exc is None and type(c.result) is not want:
                self.v("alias_factory_subclass_from_arg(%s, %r) built a %s; the class registered last with the alias %r is %s" % (
                    fam.__name__, arg, type(c.result).__name__, alias, want.__name__), check="factory_resolve", **info)
            elif isinstance(c.exc, ValueError) and str(c.exc) == "Cannot find subclass with alias '%s'" % (alias,):
                self.v("alias_factory_subclass_from_arg(%s, %r) found nothing; %s has the alias %r" % (fam.__name__, arg, want.__name__, alias), check="factory_resolve", **info)


def registry_part(mon, rec):
    from pydrobert.speech.alias import alias_factory_subclass_from_arg  # noqa

    n = 0
    for path in FAMILIES:
        fam = family(path)
        seen = {}
        for cls in walk(fam):
            if cls is fam or getattr(cls, "__abstractmethods__", None):
                continue
            if cls.__module__.startswith("vf.") or cls.__module__ == "__main__":
                continue
            own = cls.__dict__.get("aliases")
            if not own:
                continue
            kwargs = MINIMAL.get(cls.__name__)
            if kwargs is None:
                rec.count("registry_classes_without_known_minimal_arguments")
                continue
            for alias in sorted(names_of(own)):
                n += 1
                if alias in seen and seen[alias] is not cls:
                    rec.count("registry_alias_collisions")
                seen[alias] = cls
                try:
                    obj = fam.from_alias(alias, **copy.deepcopy(kwargs))
                except Exception as e:
                    mon.v("%s.from_alias(%r, **minimal arguments) raised %r" % (fam.__name__, alias, e), check="registry_raise", root=fam.__name__, alias=alias)
                    continue
                rec.count("registry_pairs_checked")
                rec.nt(("registry", fam.__name__, cls.__name__, alias))
                if type(obj) is not cls and alias not in {a for c2 in walk(fam) if c2 is not cls and mon.seq.get(c2, 0) > mon.seq.get(cls, 0) for a in (names_of(c2.__dict__.get("aliases") or ()))}:
                    mon.v("%s.from_alias(%r) built %s, the alias belongs to %s" % (fam.__name__, alias, type(obj).__name__, cls.__name__), check="registry", root=fam.__name__, alias=alias)
        frags = set()
        # aliases of the OTHER families are unknown here
        for other in FAMILIES:
            if other != path:
                for c2 in walk(family(other)):
                    frags |= {a for a in names_of(c2.__dict__.get("aliases") or ()) if a not in seen}
        rec.count("cross_family_aliases_probed", len(frags))
        for a in seen:
            frags |= {a[:-1], a[1:], a[1:-1], a[: len(a) // 2], a + "s", a.upper()}
        for bad in sorted({"", "no-such-alias", "MEL", " mel", "mel "} | frags | {a.capitalize() for a in seen} | {" " + a for a in seen} | {a + "\n" for a in seen}):
            if bad in seen:
                continue
            for call in (fam.from_alias, lambda b: alias_factory_subclass_from_arg(fam, b), lambda b: alias_factory_subclass_from_arg(fam, {"name": b})):
                try:
                    call(bad)
                except Exception:
                    pass
        for good in sorted(seen):
            for call in (lambda b: alias_factory_subclass_from_arg(fam, b), lambda b: alias_factory_subclass_from_arg(fam, {"alias": b, "name": "no-such-alias"})):
                try:
                    call(good)
                except Exception:
                    pass  # (classes that need arguments refuse with TypeError: judged by the monitor only when something was built)
        # names documented for other families only: unknown here, even if some class's alias container now holds them
        # (the monitor's own oracle reads the live containers, so this part decides on the documented table instead)
        library = {c.__name__ for c in walk(fam) if c.__module__.startswith("pydrobert.speech")}
        foreign = set().union(*[set(d) for f2, d in DOCUMENTED.items() if f2 != path]) - set(DOCUMENTED[path])
        user_aliases = {a for c in walk(fam) if c.__name__ not in library for a in names_of(c.__dict__.get("aliases") or ())}
        for a in sorted(foreign - user_aliases):
            rec.ev()
            rec.count("foreign_documented_aliases_probed")
            try:
                obj = fam.from_alias(a, **MINIMAL.get(DOCUMENTED[path][next(iter(DOCUMENTED[path]))], {}))
            except ValueError as e:
                if "Cannot find subclass" in str(e):
                    continue
                obj = e
            except Exception as e:
                obj = e
            mon.v("%s.from_alias(%r): %r is an alias of another family only, documented outcome ValueError; got %s" % (fam.__name__, a, a, type(obj).__name__ if not isinstance(obj, Exception) else repr(obj)[:120]),
                  check="foreign_alias", root=fam.__name__, alias=a)
    rec.sample({"part": "registry", "pairs": n})


def factory_part(mon, rec):
    from pydrobert.speech import alias as A

    class _VFamily(A.AliasedFactory):
        """private family: does not touch the library's registries"""

    class _Named(_VFamily):
        aliases = {"named", "n2"}

        def __init__(self, name="default", scale=1):
            self.name, self.scale = name, scale

    class _Plain(_VFamily):
        aliases = ("plain",)

        def __init__(self, x=0):
            self.x = x

    f = A.alias_factory_subclass_from_arg
    inst = _Plain(3)
    checks = []
    checks.append(("instance", f(_VFamily, inst) is inst))
    o = f(_VFamily, "plain")
    checks.append(("str", type(o) is _Plain and o.x == 0))
    import collections

    class _UserMapping(collections.abc.Mapping):
        """a mapping that is no dict (a frozen configuration node, a view on a larger tree)"""

        def __init__(self, d):
            self._d = dict(d)

        def __getitem__(self, k):
            return self._d[k]

        def __iter__(self):
            return iter(self._d)

        def __len__(self):
            return len(self._d)

    for mk in (dict, OrderedDict, lambda d: types.MappingProxyType(dict(d)), lambda d: collections.ChainMap(dict(d), {}), _UserMapping):
        o = f(_VFamily, mk({"alias": "plain", "x": 5}))
        checks.append(("mapping_alias", type(o) is _Plain and o.x == 5))
        o = f(_VFamily, mk({"name": "plain", "x": 6}))
        checks.append(("mapping_name", type(o) is _Plain and o.x == 6))
        o = f(_VFamily, mk({"alias": "named", "name": "gentle", "scale": 2}))
        checks.append(("alias_and_name", type(o) is _Named and o.name == "gentle" and o.scale == 2))
        o = f(_VFamily, mk({"name": "gentle", "alias": "n2"}))
        checks.append(("alias_and_name_reordered", type(o) is _Named and o.name == "gentle"))
        o = f(_VFamily, mk({"name": "named"}))
        checks.append(("name_only_is_alias", type(o) is _Named and o.name == "default"))
        # a mapping is keyword arguments: every key is passed on with its value, a null (None), zero or empty one as well
        o = f(_VFamily, mk({"alias": "plain", "x": None}))
        checks.append(("none_valued_key_is_passed", type(o) is _Plain and o.x is None))
        o = f(_VFamily, mk({"name": "plain", "x": 0}))
        checks.append(("zero_valued_key_is_passed", type(o) is _Plain and o.x == 0 and o.x is not False))
        o = f(_VFamily, mk({"name": "plain", "x": ""}))
        checks.append(("empty_valued_key_is_passed", type(o) is _Plain and o.x == ""))
    for bad in ("nope", {"alias": "nope"}, {"name": "nope", "x": 1}):
        try:
            f(_VFamily, bad)
            checks.append(("unknown", False))
        except ValueError:
            checks.append(("unknown", True))
        except Exception:
            checks.append(("unknown", False))
    for name, ok in checks:
        rec.ev()
        rec.count("factory_checks")
        rec.nt(("factory", name, checks.index((name, ok))))
        if not ok:
            mon.v("alias_factory_subclass_from_arg: case '%s' did not behave as documented" % name, check="factory", sub=name)
    rec.sample({"part": "factory", "cases": sorted({c[0] for c in checks})})


# ---------------------------------------------------------------- shadowing scenarios (fresh interpreters)
SCEN_RUNNER = r'''
import json, sys
from pydrobert.speech import scales, filters, pre, post, compute
steps = json.load(open(sys.argv[1]))
ns = {"ScalingFunction": scales.ScalingFunction, "MelScaling": scales.MelScaling, "BarkScaling": scales.BarkScaling, "WindowFunction": filters.WindowFunction,
      "HannWindow": filters.HannWindow, "PreProcessor": pre.PreProcessor, "Dither": pre.Dither}
out = []
BUILT = []
LINEAR = {}  # class defined by this script -> does it map Hz to itself (own methods) or inherit a library scale's methods
def mk(kind, vals):
    return {"set": set, "list": list, "tuple": tuple, "frozenset": frozenset, "dict": lambda v: {a: None for a in v}}[kind](vals)
for st in steps:
    if st[0] == "defplain":
        # a subclass that does not declare aliases of its own: it goes by its parent's
        _, name, base = st
        ns[name] = type(name, (ns[base],), {"__init__": (lambda self, *a, **k: BUILT.append(type(self).__name__))})
        LINEAR[name] = LINEAR.get(base, False)
    elif st[0] == "factory":
        from pydrobert.speech.alias import alias_factory_subclass_from_arg as afs
        _, root, alias, form = st
        try:
            out.append(type(afs(ns[root], alias if form == "string" else {form: alias})).__name__)
        except ValueError as e:
            out.append("ValueError")
        except TypeError as e:
            out.append("TypeError:" + str(e).split("REFUSED:")[-1] if "REFUSED:" in str(e) else "TypeError")
        except Exception as e:
            out.append("EXC:" + repr(e)[:100])
    elif st[0] in ("def", "defstrict"):
        _, name, base, kind, vals = st
        def strict_init(self, *args, **kw):
            if not args and "required_argument" not in kw:
                raise TypeError("REFUSED:" + type(self).__name__)
            BUILT.append(type(self).__name__)
        body = {"aliases": mk(kind, vals), "__init__": (strict_init if st[0] == "defstrict" else (lambda self, *a, **k: BUILT.append(type(self).__name__))), "scale_to_hertz": (lambda self, s: s),
                "hertz_to_scale": (lambda self, h: h), "get_impulse_response": (lambda self, w: None), "apply": (lambda self, *a, **k: None)}
        ns[name] = type(name, (ns[base],), body)
        LINEAR[name] = True
    elif st[0] == "defaultwin":
        # a computer built WITHOUT window_function: the documented default is the class GammaWindow (causal) / HannWindow (otherwise),
        # whatever other classes now answer to the aliases "gamma" / "hann"
        import numpy as np
        _, kind, style = st
        del BUILT[:]
        try:
            bank = filters.GaborFilterBank("mel", num_filts=2, sampling_rate=1000, high_hz=480.0)
            make = (lambda **kw: compute.ShortTimeFourierTransformFrameComputer(bank, frame_length_ms=8, frame_shift_ms=4, frame_style=style, **kw)) if kind == "stft" else \
                   (lambda **kw: compute.ShortIntegrationFrameComputer(bank, frame_shift_ms=4, frame_style=style, **kw))
            c1 = make()
            used = list(BUILT)
            c2 = make(window_function=(filters.GammaWindow() if style == "causal" else filters.HannWindow()))
            x = np.sin(np.arange(57) * 0.7) + 0.1
            same = np.array_equal(c1.compute_full(x), c2.compute_full(x))
            out.append("stock" if same and not used else "NOT-THE-DOCUMENTED-DEFAULT:" + ",".join(used))
        except Exception as e:
            out.append("EXC:" + repr(e)[:100] + " built " + ",".join(BUILT))
    elif st[0] == "nested":
        # the alias used where a bank takes its scaling function (bare string / {"name": ..} / {"alias": ..}): the classes
        # defined by this script map Hz to themselves, so their banks have centres equally spaced in Hz
        import numpy as np
        _, bank, form, alias = st
        arg = alias if form == "string" else {form: alias}
        del BUILT[:]
        try:
            b = {"tri": filters.TriangularOverlappingFilterBank, "gabor": filters.GaborFilterBank, "gammatone": filters.ComplexGammatoneFilterBank}[bank](
                arg, num_filts=5, low_hz=100.0, high_hz=3000.0, sampling_rate=8000)
            d = np.diff(np.asarray(b.centers_hz, dtype=float))
            linear = bool(np.max(np.abs(d - d.mean())) < 1e-6 * d.mean())
            # which scale class was instantiated for the bank, confirmed by the layout it produced
            out.append((BUILT[-1] if linear == LINEAR[BUILT[-1]] else "LAYOUT-NOT-OF:" + BUILT[-1]) if BUILT else ("stock" if not linear else "LAYOUT-LINEAR-WITHOUT-USER-CLASS"))
        except ValueError as e:
            out.append("ValueError")
        except TypeError as e:
            out.append("TypeError:" + str(e).split("REFUSED:")[-1] if "REFUSED:" in str(e) else "TypeError")
        except Exception as e:
            out.append("EXC:" + repr(e)[:100])
    else:
        _, root, alias = st
        try:
            out.append(type(ns[root].from_alias(alias)).__name__)
        except ValueError as e:
            out.append("ValueError")
        except TypeError as e:
            out.append("TypeError:" + str(e).split("REFUSED:")[-1] if "REFUSED:" in str(e) else "TypeError")
        except Exception as e:
            out.append("EXC:" + repr(e)[:100])
print(json.dumps(out))
'''

BUILTIN_ALIAS = {"MelScaling": ["mel"], "BarkScaling": ["bark"], "HannWindow": ["hanning", "hann"], "Dither": ["dither", "dithering"]}
PARENT0 = {"MelScaling": "ScalingFunction", "BarkScaling": "ScalingFunction", "HannWindow": "WindowFunction", "Dither": "PreProcessor"}


def expected_for(steps):
    """oracle: among classes in root's subtree whose aliases contain the alias, the one defined last"""
    parent = dict(PARENT0)
    aliases = {k: list(v) for k, v in BUILTIN_ALIAS.items()}
    # built-ins were registered at import, before everything else; MelScaling is defined before BarkScaling
    order = {"MelScaling": -2, "BarkScaling": -1, "HannWindow": -1, "Dither": -1}
    clock = 0
    exp = []
    strict = set()
    for st in steps:
        if st[0] == "defaultwin":
            exp.append(("stock", None))
        elif st[0] == "defplain":
            clock += 1
            parent[st[1]] = st[2]
            aliases[st[1]] = list(aliases.get(st[2], []))  # inherited
            order[st[1]] = clock
        elif st[0] in ("def", "defstrict"):
            clock += 1
            parent[st[1]] = st[2]
            aliases[st[1]] = list(st[4])
            order[st[1]] = clock
            if st[0] == "defstrict":
                strict.add(st[1])
        else:
            root, alias = (st[1], st[2]) if st[0] in ("lookup", "factory") else ("ScalingFunction", st[3])

            def under(c):
                while c is not None:
                    if c == root:
                        return True
                    c = parent.get(c)
                return False

            cands = [c for c in aliases if alias in aliases[c] and under(c)]
            win = max(cands, key=lambda c: order[c]) if cands else "ValueError"
            if not cands:
                exp.append(("ValueError", None))
                continue
            # the winner is built without arguments: a class whose constructor needs one refuses with TypeError
            # (the search must not fall back to a shadowed class)
            if st[0] == "nested":
                exp.append(("TypeError:" + win if win in strict else "stock" if win in BUILTIN_ALIAS else win, win))
                continue
            exp.append(("TypeError:" + win if win in strict else win, win))
    return exp, parent, order


DIRECTED = {
    "siblings_AB": [["def", "A", "ScalingFunction", "set", ["zz"]], ["def", "B", "ScalingFunction", "set", ["zz"]], ["lookup", "ScalingFunction", "zz"]],
    "siblings_BA": [["def", "B", "ScalingFunction", "set", ["zz"]], ["def", "A", "ScalingFunction", "set", ["zz"]], ["lookup", "ScalingFunction", "zz"]],
    "shadow_builtin_from_family_child": [["def", "X", "ScalingFunction", "set", ["mel"]], ["lookup", "ScalingFunction", "mel"], ["lookup", "ScalingFunction", "bark"]],
    "shadow_builtin_from_concrete_child": [["def", "Y", "MelScaling", "set", ["mel"]], ["lookup", "ScalingFunction", "mel"], ["lookup", "MelScaling", "mel"]],
    "nested_later_registration": [["def", "A", "ScalingFunction", "set", ["a1"]], ["def", "B", "ScalingFunction", "set", ["x"]], ["def", "A2", "A", "set", ["x"]],
                                  ["lookup", "ScalingFunction", "x"]],
    "nested_earlier_registration": [["def", "A", "ScalingFunction", "set", ["a1"]], ["def", "A2", "A", "set", ["x"]], ["def", "B", "ScalingFunction", "set", ["x"]],
                                    ["lookup", "ScalingFunction", "x"]],
    "lookup_register_lookup": [["lookup", "ScalingFunction", "mel"], ["def", "X", "ScalingFunction", "set", ["mel"]], ["lookup", "ScalingFunction", "mel"],
                               ["def", "X2", "MelScaling", "list", ["mel"]], ["lookup", "ScalingFunction", "mel"], ["lookup", "MelScaling", "mel"]],
    "three_generations": [["def", "X1", "WindowFunction", "set", ["hann"]], ["def", "X2", "X1", "set", ["hann"]], ["def", "X3", "X2", "tuple", ["hann"]],
                          ["lookup", "WindowFunction", "hann"], ["lookup", "X1", "hann"], ["lookup", "HannWindow", "hann"]],
    "alias_containers": [["def", "L", "PreProcessor", "list", ["q1", "q2"]], ["def", "T", "PreProcessor", "tuple", ["q2", "q3"]], ["def", "F", "PreProcessor", "frozenset", ["q3", "q4"]],
                         ["def", "D", "PreProcessor", "dict", ["q4", "q1"]], ["lookup", "PreProcessor", "q1"], ["lookup", "PreProcessor", "q2"], ["lookup", "PreProcessor", "q3"],
                         ["lookup", "PreProcessor", "q4"], ["lookup", "PreProcessor", "q5"]],
    "subfamily_root_does_not_see_siblings": [["def", "A", "ScalingFunction", "set", ["k"]], ["lookup", "MelScaling", "k"], ["lookup", "BarkScaling", "mel"]],
    "unknown_after_registration": [["def", "A", "PreProcessor", "set", ["k"]], ["lookup", "PreProcessor", ""], ["lookup", "PreProcessor", "K"]],
    "winner_refuses_arguments": [["defstrict", "X", "ScalingFunction", "set", ["mel"]], ["lookup", "ScalingFunction", "mel"], ["lookup", "MelScaling", "mel"],
                                 ["def", "Y", "ScalingFunction", "set", ["bark"]], ["defstrict", "Z", "Y", "set", ["bark"]], ["lookup", "ScalingFunction", "bark"]],
    "nested_shadowed_scale": [["nested", "tri", "string", "mel"], ["def", "X", "ScalingFunction", "set", ["mel"]], ["nested", "tri", "string", "mel"], ["nested", "gabor", "name", "mel"],
                              ["nested", "gammatone", "alias", "mel"], ["nested", "gabor", "string", "bark"], ["def", "Y", "BarkScaling", "list", ["bark"]],
                              ["nested", "gammatone", "string", "bark"], ["nested", "tri", "name", "bark"], ["lookup", "ScalingFunction", "bark"]],
    "inherited_aliases": [["defplain", "P", "HannWindow"], ["lookup", "WindowFunction", "hann"], ["lookup", "WindowFunction", "hanning"], ["lookup", "P", "hann"], ["lookup", "HannWindow", "hann"],
                          ["factory", "WindowFunction", "hann", "string"], ["factory", "WindowFunction", "hanning", "name"],
                          ["def", "A", "ScalingFunction", "set", ["zz"]], ["defplain", "A2", "A"], ["lookup", "ScalingFunction", "zz"], ["lookup", "A2", "zz"],
                          ["defplain", "M2", "MelScaling"], ["nested", "tri", "string", "mel"], ["lookup", "ScalingFunction", "mel"]],
    "aliases_are_case_sensitive": [["def", "E", "ScalingFunction", "set", ["ERB", "Kaiser-Bessel"]], ["lookup", "ScalingFunction", "ERB"], ["factory", "ScalingFunction", "ERB", "string"],
                                   ["factory", "ScalingFunction", "Kaiser-Bessel", "string"], ["factory", "ScalingFunction", "ERB", "name"], ["factory", "ScalingFunction", "erb", "string"],
                                   ["factory", "ScalingFunction", "Mel", "string"], ["factory", "ScalingFunction", " mel", "string"], ["factory", "ScalingFunction", "mel\n", "string"],
                                   ["factory", "ScalingFunction", "MEL", "alias"], ["nested", "gabor", "string", "ERB"], ["factory", "ScalingFunction", "mel", "string"]],
    "default_window_is_the_documented_class": [["defaultwin", "stft", "centered"], ["def", "X", "WindowFunction", "set", ["hann", "gamma"]], ["defaultwin", "stft", "centered"],
                                               ["defaultwin", "stft", "causal"], ["defaultwin", "si", "centered"], ["defaultwin", "si", "causal"], ["defplain", "P", "HannWindow"],
                                               ["defaultwin", "stft", "centered"], ["lookup", "WindowFunction", "hann"]],
    "shadow_own_parent_then_sibling": [["def", "P", "PreProcessor", "set", ["p"]], ["def", "C", "P", "set", ["p"]], ["def", "S", "PreProcessor", "set", ["p"]],
                                       ["lookup", "PreProcessor", "p"], ["lookup", "P", "p"]],
}


def random_scenario(rng):
    roots = ["ScalingFunction", "WindowFunction", "PreProcessor"]
    root = str(rng.choice(roots))
    builtin = {"ScalingFunction": ["MelScaling", "BarkScaling"], "WindowFunction": ["HannWindow"], "PreProcessor": ["Dither"]}[root]
    pool = ["u", "v", "w", "Wq"] + [BUILTIN_ALIAS[b][0] for b in builtin]
    names, steps = [], []
    for j in range(int(rng.integers(3, 8))):
        if names and rng.random() < 0.3:
            steps.append(["lookup", str(rng.choice([root] + names + builtin)), str(rng.choice(pool))])
        base = str(rng.choice([root] + names + (builtin if rng.random() < 0.3 else [])))
        name = "C%d" % j
        k = int(rng.integers(1, 3))
        if rng.random() < 0.15:
            steps.append(["defplain", name, base])  # inherits its parent's aliases
        else:
            steps.append(["defstrict" if rng.random() < 0.15 else "def", name, base, str(rng.choice(["set", "list", "tuple", "frozenset", "dict"])),
                          [str(a) for a in rng.choice(pool, size=k, replace=False)]])
        names.append(name)
    for a in pool:
        steps.append(["lookup", root, a])
        if rng.random() < 0.4:
            steps.append(["factory", root, str(rng.choice([a, a, a.swapcase(), " " + a])), str(rng.choice(["string", "name", "alias"]))])
        if root == "ScalingFunction" and rng.random() < 0.5:
            steps.append(["nested", str(rng.choice(["tri", "gabor", "gammatone"])), str(rng.choice(["string", "name", "alias"])), a])
    steps.append(["lookup", str(rng.choice(names)), str(rng.choice(pool))])
    return steps


def run_scenario(mon, rec, name, steps, workdir):
    import os

    p = os.path.join(workdir, "scen.json")
    json.dump(steps, open(p, "w"))
    try:
        r = subprocess.run([sys.executable, "-c", SCEN_RUNNER, p], capture_output=True, text=True, timeout=120)
        got = json.loads(r.stdout.strip().splitlines()[-1])
    except Exception as e:
        rec.inconc("scenario runner failed: %r" % (e,))
        return
    want, parent, order = expected_for(steps)
    lookups = [s for s in steps if s[0] in ("lookup", "nested", "factory", "defaultwin")]
    rec.count("scenarios")
    collision = False
    for (st, g, (w, wcls)) in zip(lookups, got, want):
        rec.ev()
        rec.count("scenario_lookups")
        if st[0] == "defaultwin":
            rec.count("scenario_default_window_builds")
            if g != w:
                mon.v("scenario %s: a %s computer (%s) built without window_function does not use the documented default window class: %s" % (name, st[1], st[2], g),
                      check="default_window", scenario=name, steps=steps)
            continue
        if st[0] == "nested":
            rec.count("scenario_nested_scale_lookups")
            if g != w:
                gcls = g.split(":")[-1]
                if g == "stock":
                    gcls = next((b for b, al in BUILTIN_ALIAS.items() if st[3] in al and PARENT0[b] == "ScalingFunction"), "stock")
                mon.v("scenario %s: a %s bank given scaling_function %s %r uses %s; the class registered last with that alias is %s" % (
                    name, st[1], st[2], st[3], "the library's own scale" if g == "stock" else g, wcls), check="shadowing",
                    scenario=name, steps=steps, root="ScalingFunction", alias=st[3], got=gcls, got_outcome=g, want=wcls, want_outcome=w, parent=parent, order=order, nested=True)
            continue
        if g != w:
            mon.v("scenario %s: %s.from_alias(%r) gave %s; the class registered last with that alias is %s%s" % (
                name, st[1], st[2], g, wcls, " (whose constructor refuses the call: TypeError expected)" if w.startswith("TypeError") else ""), check="shadowing", scenario=name,
                steps=steps, root=st[1], alias=st[2], got=g.split(":")[-1], got_outcome=g, want=wcls, want_outcome=w, parent=parent, order=order)
        if w.startswith("TypeError"):
            rec.count("lookups_whose_winner_refuses_the_arguments")
        if w != "ValueError":
            collision = True
    if collision:
        rec.nt(("scenario", json.dumps(steps)))


# ---------------------------------------------------------------- configuration trees
def explicit_twin(cfg):
    """build the computer by calling classes directly (harness name->class table)"""
    from pydrobert.speech import scales as S, filters as F, compute as C

    SC = {"mel": S.MelScaling, "bark": S.BarkScaling, "linear": S.LinearScaling, "octave": S.OctaveScaling}
    from .. import userbank

    BK = {"tri": F.TriangularOverlappingFilterBank, "fbank": F.Fbank, "gabor": F.GaborFilterBank, "gammatone": F.ComplexGammatoneFilterBank,
          "vfrealcos": userbank.RealCosineBank}  # a bank defined outside the library resolves through the same factory
    WN = {"hann": F.HannWindow, "hamming": F.HammingWindow, "bartlett": F.BartlettWindow, "blackman": F.BlackmanWindow, "gamma": F.GammaWindow}

    def nm(d):
        d = dict(d)
        return d.pop("alias", None) or d.pop("name"), d

    def scale(s):
        if isinstance(s, str):
            return SC[s]()
        n, kw = nm(s)
        return SC[n](**kw)

    def window(w):
        if w is None:
            return None
        if isinstance(w, str):
            return WN[w]()
        n, kw = nm(w)
        return WN[n](**kw)

    n, kw = nm(cfg)
    bn, bkw = nm(kw.pop("bank"))
    if "scaling_function" in bkw:
        bkw["scaling_function"] = scale(bkw["scaling_function"])
    bank = BK[bn](**bkw)
    if isinstance(kw.get("frame_style"), str):
        # the explicit twin is written the way source code is: with string literals (the strings of a JSON document are equal to them,
        # never the same objects)
        kw["frame_style"] = {"causal": "causal", "centered": "centered"}.get(kw["frame_style"], kw["frame_style"])
    kw["window_function"] = window(kw.get("window_function"))
    if kw["window_function"] is None:
        # left out: the documented default is an object of the class GammaWindow for causal frames, HannWindow otherwise
        style = kw.get("frame_style") or ("centered" if bank.is_zero_phase else "causal")
        kw["window_function"] = F.GammaWindow() if style == "causal" else F.HannWindow()
    return {"stft": C.ShortTimeFourierTransformFrameComputer, "si": C.ShortIntegrationFrameComputer}[n](bank, **kw)


def vary(cfg, rng):
    """same configuration, different spellings of alias / name, other aliases of the same class"""
    SYN = {"tri": ["tri", "triangular"], "gammatone": ["gammatone", "tonebank"], "hann": ["hann", "hanning"], "stft": ["stft"], "si": ["si"], "gabor": ["gabor"],
           "fbank": ["fbank"], "mel": ["mel"], "bark": ["bark"], "linear": ["linear", "uniform"], "octave": ["octave"], "hamming": ["hamming"],
           "bartlett": ["bartlett", "triangular", "tri"], "blackman": ["blackman", "black"], "gamma": ["gamma"]}

    def spell(d):
        d = dict(d)
        n = d.pop("name")
        key = "alias" if rng.random() < 0.5 else "name"
        out = {key: str(rng.choice(SYN.get(n, [n])))}
        out.update(d)
        if rng.random() < 0.3:
            out = dict(reversed(list(out.items())))
        return out

    c = copy.deepcopy(cfg)
    b = c["bank"]
    sc = b.get("scaling_function")
    if isinstance(sc, str) and rng.random() < 0.5:
        b["scaling_function"] = spell({"name": sc})
    elif isinstance(sc, dict):
        b["scaling_function"] = spell(sc)
    c["bank"] = spell(b)
    w = c.get("window_function")
    if isinstance(w, str) and rng.random() < 0.5:
        c["window_function"] = spell({"name": w})
    elif isinstance(w, dict):
        c["window_function"] = spell(w)
    return spell(c)


def tree_part(mon, rec, rng, idx, seed):
    from pydrobert.speech import alias as A, compute as C
    from .. import userbank  # noqa: F401  (registers the user-defined bank's alias)

    if idx % 3 == 2:
        from .C03 import make_cfg as si_make

        base = si_make(seed, 900000 + idx)
    else:
        base = gen.stft_cfg(rng)
    spelled = vary(base, rng)
    text = json.dumps(spelled)
    parsed = json.loads(text)
    before = copy.deepcopy(parsed)
    try:
        built = A.alias_factory_subclass_from_arg(C.FrameComputer, parsed)
        twin = explicit_twin(copy.deepcopy(base))
    except Exception as e:
        rec.count("trees_not_constructible")
        rec.note("tree not constructible: %r" % (e,))
        return
    rec.ev()
    rec.count("trees")
    if parsed != before:
        mon.v("building a computer modified its (parsed JSON) configuration", check="tree_config_modified", cfg=text)
    if type(built) is not type(twin) or type(built.bank) is not type(twin.bank):
        mon.v("alias-built computer is a %s over %s, explicit twin %s over %s" % (type(built).__name__, type(built.bank).__name__, type(twin).__name__, type(twin.bank).__name__),
              check="tree_type", cfg=text)
        return
    fl = built.frame_length
    if fl > 600:
        rec.count("trees_skipped_size")
        return
    x = gen.signal(rng, int(rng.integers(fl, 3 * fl + 20)), "noise")
    try:
        a, b = built.compute_full(x), twin.compute_full(x)
    except Exception as e:
        rec.count("trees_compute_raised")
        return
    if a.shape != b.shape or a.dtype != b.dtype or not np.array_equal(a, b):
        mon.v("alias-built computer and its explicit twin give different features (shape %r vs %r)" % (a.shape, b.shape), check="tree_features", cfg=text)
    if a.shape[0] >= 1:
        rec.nt(("tree", text))
    if idx % 50 == 0:
        rec.sample({"part": "tree", "json": text})


def twins_part(mon, rec, rng, idx):
    """objects other than the two shipped computers built from a configuration and by hand: post-processors whose
    constructors pass extra keywords on (to numpy.pad, to read_signal), pre-processors, parametrised windows and scales,
    and a frame computer a user derived from the documented base class"""
    from pydrobert.speech import alias as A, post as POST, pre as PRE, filters as F, scales as S, compute as C
    from .. import userbank

    UC = userbank.user_computer_class()
    x = rng.standard_normal((int(rng.integers(4, 12)), int(rng.integers(2, 5)))) * 3

    def same(a, b):
        return a.shape == b.shape and a.dtype == b.dtype and np.array_equal(a, b, equal_nan=True)

    pad = [("constant", {"constant_values": float(rng.integers(-3, 4))}), ("linear_ramp", {"end_values": float(rng.integers(-3, 4))}), ("mean", {"stat_length": int(rng.integers(1, 4))}),
           ("reflect", {"reflect_type": "odd"}), ("edge", {})][int(rng.integers(5))]
    nd, nv = int(rng.integers(1, 3)), int(rng.integers(2, 4))
    cases = [
        ("PostProcessor", dict({"name": "deltas", "num_deltas": nd, "pad_mode": pad[0]}, **pad[1]), lambda: POST.Deltas(nd, pad_mode=pad[0], **pad[1]), lambda o: o.apply(x)),
        ("PostProcessor", dict({"alias": "stack", "num_vectors": nv, "pad_mode": pad[0]}, **pad[1]), lambda: POST.Stack(nv, pad_mode=pad[0], **pad[1]), lambda o: o.apply(x)),
        ("PreProcessor", {"name": "preemph", "coeff": 0.5}, lambda: PRE.Preemphasize(0.5), lambda o: o.apply(x[:, 0])),
        ("WindowFunction", {"name": "gamma", "order": 2, "peak": 0.6}, lambda: F.GammaWindow(2, 0.6), lambda o: o.get_impulse_response(17)),
        ("ScalingFunction", {"alias": "linear", "low_hz": 5.0, "slope_hz": 2.0}, lambda: S.LinearScaling(5.0, 2.0), lambda o: np.array([o.hertz_to_scale(100.0), o.scale_to_hertz(7.0)])),
    ]
    fams = {"PostProcessor": POST.PostProcessor, "PreProcessor": PRE.PreProcessor, "WindowFunction": F.WindowFunction, "ScalingFunction": S.ScalingFunction}
    for fam, cfg, explicit, use in cases:
        text = json.dumps(cfg)
        rec.ev()
        rec.count("processor_twins")
        try:
            twin = use(explicit())
        except Exception:
            rec.count("processor_twins_not_constructible")
            continue
        for how in ("mapping", "from_alias"):
            try:
                if how == "mapping":
                    built = A.alias_factory_subclass_from_arg(fams[fam], json.loads(text))
                else:
                    kw = {k: v for k, v in cfg.items() if k not in ("name", "alias")}
                    built = fams[fam].from_alias(cfg.get("alias", cfg.get("name")), **kw)
                got = use(built)
            except Exception as e:
                mon.v("%s built from %s (%s) raised %r; the explicitly constructed object works" % (fam, text, how, e), check="twin_raise", cfg=text)
                continue
            if not same(np.asarray(got), np.asarray(twin)):
                mon.v("%s built from %s (%s) behaves differently from the explicitly constructed object" % (fam, text, how), check="twin_value", cfg=text)
        rec.nt(("twin", text))
    # Standardize: statistics file name plus a read_signal keyword passed through
    d = tempfile.mkdtemp(prefix="c08_")
    try:
        st = POST.Standardize()
        st.accumulate(x)
        p = os.path.join(d, "stats.npz")
        st.save(p, key="mine")
        cfg = {"name": "standardize", "rfilename": p, "key": "mine"}
        rec.ev()
        rec.count("processor_twins")
        try:
            built = A.alias_factory_subclass_from_arg(POST.PostProcessor, dict(cfg))
            if not same(built.apply(x), POST.Standardize(p, key="mine").apply(x)):
                mon.v("Standardize built from %r differs from the explicitly constructed object" % (cfg,), check="twin_value", cfg=json.dumps(cfg))
        except Exception as e:
            mon.v("Standardize built from %r raised %r; the explicitly constructed object works" % (cfg, e), check="twin_raise", cfg=json.dumps(cfg))
    finally:
        shutil.rmtree(d, ignore_errors=True)
    # a user's computer derived from LinearFilterBankFrameComputer, its bank given by alias / mapping / object
    bank_cfg = {"name": "tri", "num_filts": 3, "sampling_rate": 1000, "low_hz": 20.0, "high_hz": 480.0, "scaling_function": "mel"}
    sig = rng.standard_normal(int(rng.integers(20, 60)))
    rec.ev()
    rec.count("user_computer_twins")
    try:
        want = UC(F.TriangularOverlappingFilterBank("mel", num_filts=3, sampling_rate=1000, low_hz=20.0, high_hz=480.0), include_energy=True).compute_full(sig)
        for spelled in ({"name": "vfband", "bank": bank_cfg, "include_energy": True}, {"alias": "vfband", "bank": json.loads(json.dumps(bank_cfg)), "include_energy": True}):
            built = A.alias_factory_subclass_from_arg(C.FrameComputer, json.loads(json.dumps(spelled)))
            if not isinstance(built.bank, F.LinearFilterBank):
                mon.v("a computer derived from LinearFilterBankFrameComputer and built from %r has a %s as its bank" % (spelled, type(built.bank).__name__), check="twin_value",
                      cfg=json.dumps(spelled))
                continue
            got = built.compute_full(sig)
            if not same(got, want):
                mon.v("user computer built from %r differs from the explicitly constructed one" % (spelled,), check="twin_value", cfg=json.dumps(spelled))
        built = UC("fbank")  # the bank as a bare alias with its default arguments
        if not isinstance(built.bank, F.Fbank):
            mon.v("a computer derived from LinearFilterBankFrameComputer given bank='fbank' has a %s as its bank" % type(built.bank).__name__, check="twin_value", cfg="fbank")
    except Exception as e:
        mon.v("user computer derived from LinearFilterBankFrameComputer: %r" % (e,), check="twin_raise", cfg="vfband")


def shared_bank_twins(mon, rec, rng, idx):
    """explicitly assembled computers that share ONE bank object (a front end with and without the energy coefficient, at two frame
    shifts) against computers built from configurations, each of which gets a bank of its own: a bank is a description, the computers
    built around it do not change it for one another"""
    from pydrobert.speech import alias as A, filters as F, compute as C

    def same(a, b):
        return a.shape == b.shape and a.dtype == b.dtype and np.array_equal(a, b, equal_nan=True)

    kind = ["gabor", "tri", "gammatone", "fbank"][idx % 4]
    bcfg = {"name": kind, "num_filts": int(rng.integers(2, 6)), "sampling_rate": 1000, "low_hz": 20.0, "high_hz": 480.0}
    if kind != "fbank":
        bcfg["scaling_function"] = "mel"
    fam = ["si", "stft"][(idx // 4) % 2]
    if fam == "si":
        variants = [{"frame_shift_ms": 4.0, "include_energy": True}, {"frame_shift_ms": 4.0, "include_energy": False}, {"frame_shift_ms": 6.0, "include_energy": True},
                    {"frame_shift_ms": 4.0, "include_energy": False, "use_power": True}]
        cls = C.ShortIntegrationFrameComputer
    else:
        variants = [{"frame_length_ms": 16.0, "frame_shift_ms": 6.0, "include_energy": True}, {"frame_length_ms": 16.0, "frame_shift_ms": 6.0},
                    {"frame_length_ms": 12.0, "frame_shift_ms": 6.0, "include_energy": True, "pad_to_nearest_power_of_two": True}, {"frame_length_ms": 16.0, "frame_shift_ms": 6.0, "use_power": True}]
        cls = C.ShortTimeFourierTransformFrameComputer
    order = [int(k) for k in rng.permutation(len(variants))]
    sig = rng.standard_normal(int(rng.integers(60, 200)))
    rec.ev()
    rec.count("groups_of_computers_sharing_one_bank_object")
    try:
        bank = A.alias_factory_subclass_from_arg(F.LinearFilterBank, dict(bcfg))
        explicit = {k: cls(bank, **variants[k]) for k in order}
        for rnd in range(2):
            for k in order:
                built = A.alias_factory_subclass_from_arg(C.FrameComputer, json.loads(json.dumps(dict(variants[k], name=fam, bank=bcfg))))
                want = built.compute_full(sig)
                got = explicit[k].compute_full(sig)
                if not same(got, want):
                    mon.v("a %s computer assembled around a bank object that %d other computers share differs from the computer built from the same configuration (%r)"
                          % (fam, len(order) - 1, variants[k]), check="twin_value", cfg=json.dumps(dict(variants[k], name=fam, bank=bcfg)))
                    return
        rec.nt(("shared_bank", fam, kind, tuple(order)))
    except Exception as e:
        mon.v("computers sharing one bank object (%s, %s): %r" % (fam, kind, e), check="twin_raise", cfg=json.dumps(bcfg))


def run_case(case, rec, mon=None):
    import shutil
    import tempfile

    own = mon is None
    if own:
        monitor.detach_all()
        mon = Mon(rec)
        mon.attach()
    mon.case = case
    kind = case["kind"]
    if kind == "registry":
        if case.get("all_modules"):
            # the registry as a program that uses the whole package sees it: every module of pydrobert.speech imported (the
            # command-line module and the torch ports are imported by nothing else in the package)
            import importlib
            import pkgutil
            import pydrobert.speech as pkg

            for m in pkgutil.walk_packages(pkg.__path__, "pydrobert.speech."):
                try:
                    importlib.import_module(m.name)
                    rec.count("package_modules_imported_before_the_registry_walk")
                except Exception as e:
                    rec.note("module %s not importable here: %r" % (m.name, e))
        if case.get("cwd_files"):
            # the same walk in a working directory that holds files named like the aliases (a feature directory "fbank", a list "mel",
            # a note "hamming"): a string handed to the factory is an alias, whatever the file system holds under that name
            import json as _json

            here = os.getcwd()
            d = tempfile.mkdtemp(prefix="c08cwd_")
            try:
                for path in FAMILIES:
                    fam = family(path)
                    pairs = [(a, c) for c in walk(fam) for a in sorted(names_of(c.__dict__.get("aliases") or ()))]
                    noarg = [a for a, c in pairs if MINIMAL.get(c.__name__) == {}]
                    for k, (a, c) in enumerate(pairs):
                        if not a or "/" in a or os.path.exists(os.path.join(d, a)):
                            continue
                        others = [b for b in noarg if b not in names_of(c.__dict__.get("aliases") or ())]
                        with open(os.path.join(d, a), "w") as fh:
                            if others and k % 3 != 2:
                                _json.dump({"name": others[k % len(others)]}, fh)  # a valid configuration - of something else
                            elif k % 2:
                                fh.write("utt1 /data/utt1.wav\n")
                            else:
                                _json.dump(others[k % len(others)] if others else a, fh)
                        rec.count("files_named_like_an_alias_in_the_working_directory")
                os.chdir(d)
                registry_part(mon, rec)
                factory_part(mon, rec)
            finally:
                os.chdir(here)
                shutil.rmtree(d, ignore_errors=True)
        else:
            registry_part(mon, rec)
    elif kind == "factory":
        factory_part(mon, rec)
    elif kind == "twins":
        twins_part(mon, rec, rng_for(case["seed"], "C08", case["idx"], 7), case["idx"])
        shared_bank_twins(mon, rec, rng_for(case["seed"], "C08", case["idx"], 9), case["idx"])
    elif kind == "scenario":
        d = tempfile.mkdtemp(prefix="c08_")
        try:
            if case.get("name"):
                run_scenario(mon, rec, case["name"], DIRECTED[case["name"]], d)
                rec.sample({"part": "scenario", "name": case["name"], "steps": DIRECTED[case["name"]]})
            else:
                rng = rng_for(case["seed"], "C08", case["idx"], 3)
                steps = random_scenario(rng)
                run_scenario(mon, rec, "random-%d" % case["idx"], steps, d)
        finally:
            shutil.rmtree(d, ignore_errors=True)
    else:
        rng = rng_for(case["seed"], "C08", case["idx"], 5)
        tree_part(mon, rec, rng, case["idx"], case["seed"])
    if own:
        monitor.report(rec)
        mon.detach()
        monitor.detach_all()


def plan(tier, seed):
    q = tier == "quick"
    cases = [{"kind": "registry"}, {"kind": "factory"}, {"kind": "registry", "all_modules": True}, {"kind": "registry", "cwd_files": True}]
    cases += [{"kind": "scenario", "name": n} for n in DIRECTED]
    cases += [{"kind": "scenario", "idx": i, "seed": seed} for i in range(120 if q else 1500)]
    cases += [{"kind": "tree", "idx": i, "seed": seed} for i in range(600 if q else 6000)]
    cases += [{"kind": "twins", "idx": i, "seed": seed} for i in range(40 if q else 400)]
    nsh = 16
    return [{"cases": cases[i::nsh]} for i in range(nsh) if cases[i::nsh]]


def run_shard(spec, rec):
    mon = Mon(rec)
    mon.attach()
    try:
        for case in spec["cases"]:
            run_case(case, rec, mon)
    finally:
        mon.detach()
    monitor.report(rec)
    monitor.detach_all()


def finish(rec):
    for k in ("registry_pairs_checked", "factory_checks", "scenarios", "scenario_lookups", "trees", "from_alias_calls", "from_alias_unknown_alias", "lookups_whose_winner_refuses_the_arguments", "cross_family_aliases_probed"):
        if not rec.counters[k]:
            rec.inconc("part %s never ran" % k)
    if rec.counters["registry_pairs_checked"] and rec.counters["registry_pairs_checked"] < 30:
        rec.inconc("registry walk found only %d (class, alias) pairs" % rec.counters["registry_pairs_checked"])


def classify(w):
    """D10: the DFS explores the subtrees of a node's children in reverse registration order of the *children*, so a
    later-registered class deeper in an earlier-registered branch loses to an earlier-registered class in a later branch."""
    if w.get("check") != "shadowing":
        return None
    parent, order, got, want = w.get("parent") or {}, w.get("order") or {}, w.get("got"), w.get("want")
    if got not in order or want not in order or not (order[got] < order[want]):
        return None

    def chain(c):
        out = []
        while c is not None:
            out.append(c)
            c = parent.get(c)
        return out

    cw, cg = chain(want), chain(got)
    common = next((c for c in cw if c in cg), None)
    if common is None or common in (want, got):
        return None
    bw = cw[cw.index(common) - 1]
    bg = cg[cg.index(common) - 1]
    if bw != want and order.get(bw, 0) < order.get(bg, 0):
        return "later-class-in-earlier-branch-loses"
    return None
