"""C05 - filter banks are laid out on the scale as documented, with unit gain.

Monitors: post-hooks on the four bank constructors (layout, ordering, containment and the
range-validation contract are checked on every bank ever built) plus a probe driver that
asks the real banks for responses and checks them against the documented shapes:
per-bin triangles (triangular / Fbank), fitted peak gain and position, L2 norm, 3 dB
crossings / equivalent rectangular bandwidth (Gabor / gammatone).
"""
import contextlib
import copy
import math

import numpy as np

from .. import filtgen, gen, monitor
from ..common import rng_for, split

OPTIMIZED_SHARDS = 1  # shards run once more in an interpreter started with -O (vf/run.py)
LEVEL = "exploration"
TECHNIQUE = "runtime monitors on bank constructors and responses against an independent layout oracle (own scale formulas, per-bin triangles, fitted peak / 3 dB / ERB / L2 norm)"
RULE = (
    "banks: seeded (class in tri/fbank/gabor/gammatone, scale in mel/bark/linear/octave with random parameters, 1-40 filters, rates 2000-44100 incl. odd, "
    "low_hz incl. 0, high_hz incl. default and floor(Nyquist), analytic / erb / scale_l2_norm / order 1-8 / max_centered), every seventh probed through a deep copy / pickle round trip / shallow copy; filter probes: first, last and a "
    "random filter; invalid ranges for the rejection contract; non-trivial = a Gabor/gammatone probe whose support is < rate/2 (gain, bandwidth checks "
    "apply) or a triangular/Fbank per-bin comparison with >= 3 non-zero bins; distinct by (bank configuration, filter, width)"
)
ASSUMPTIONS = [
    "when high_hz is omitted only even sampling rates are used (the documented default 'the Nyquist' and the implemented rate//2 coincide there)",
    "tolerances: layout 1e-9 relative; triangle bins 1e-9; peak gain 1 +- 2e-3, peak position within half a bin; L2 norm 1 +- 2% (gammatone order 1: +- 25%); "
    "3 dB ratio 0.5 +- 0.004 (the worst deviation measured over 60000 banks of the unchanged tree is 0.0013); ERB ratio 1 +- 1.5% (gammatone order 1: +- 8%)",
    "what happens for high_hz within 1 Hz above Nyquist or high_hz = 0 is not asserted (the statement leaves it open)",
]
ANCHOR_FILES = ("src/pydrobert/speech/filters.py", "src/pydrobert/speech/scales.py")
EXHAUSTIVE_PARTS = []
SUITE_TESTS = ['tests/test_filters.py', 'tests/test_compute.py']  # the repository's own tests as an extra monitored workload (thorough tier)
LEVEL_TEXT = (
    "Every bank constructed in the run (4000 quick / 60000 thorough, all four classes and every flag) has its layout compared with an independent "
    "implementation of the scale formulas, and thousands of filter probes are compared with the documented response shapes. Sampled exploration of a "
    "continuous configuration space; evidence counts the flag combinations and checks actually exercised."
)
LEVEL_NOTE = "Trusts vf/oracle/scales_ref.py (tied to the published formulas) and NumPy; Gabor/gammatone gain and bandwidth are measured on a finite grid with a quadratic peak fit."

BANKS = None


def _classes():
    from pydrobert.speech import filters as F

    return {"tri": F.TriangularOverlappingFilterBank, "fbank": F.Fbank, "gabor": F.GaborFilterBank, "gammatone": F.ComplexGammatoneFilterBank}


class Mon:
    def __init__(self, rec):
        self.rec = rec
        self.case = None
        self.cfg_of = {}

    def attach(self):
        import inspect

        for name, cls in _classes().items():
            sig = inspect.signature(cls.__init__)
            monitor.attach(cls, "__init__", post=(lambda c, name=name, sig=sig: self.post_init(c, name, sig)), op=cls.__name__ + ".__init__")

    def v(self, what, **kw):
        self.rec.violation(dict(what=what, case=self.case, **kw))

    def post_init(self, c, name, sig):
        try:
            ba = sig.bind(c.self, *c.args, **c.kwargs)
            ba.apply_defaults()
            a = dict(ba.arguments)
            a.pop("self")
        except TypeError:
            return
        self.rec.ev()
        self.rec.count("constructed_" + name if c.exc is None else "constructor_raised_" + name)
        rate, lo, hi = a["sampling_rate"], a["low_hz"], a["high_hz"]
        nyq = rate / 2
        info = dict(cls=name, low_hz=lo, high_hz=hi, rate=rate, num_filts=a.get("num_filts"))
        try:
            bad = lo < 0 or (hi is not None and hi > 0 and (hi <= lo or hi > nyq + 1))
            good = hi is not None and 0 <= lo < hi <= math.floor(nyq)
        except TypeError:
            return
        if bad:
            self.rec.count("invalid_ranges_seen")
            if not isinstance(c.exc, ValueError):
                self.v("%s(low_hz=%r, high_hz=%r, rate=%r) was %s, documented: ValueError" % (name, lo, hi, rate, "accepted" if c.exc is None else "rejected with %r" % c.exc),
                       check="range_reject", **info)
            return
        if c.exc is not None:
            if good and isinstance(c.exc, ValueError) and isinstance(a.get("num_filts"), (int, np.integer)) and a["num_filts"] >= 1 and \
                    (name != "gammatone" or (isinstance(a.get("order"), int) and a["order"] >= 1)):
                sc = a.get("scaling_function")
                if not (isinstance(sc, dict) and sc.get("name") == "octave" and lo <= 0):
                    self.v("%s rejected the valid range low_hz=%r high_hz=%r rate=%r: %r" % (name, lo, hi, rate, c.exc), check="range_accept", **info)
            return
        # ---- layout (needs a describable scale)
        sc = "mel" if name == "fbank" else a.get("scaling_function")
        sc = _describe_scale(sc)
        if not (isinstance(sc, str) and sc in ("mel", "bark", "vfsqrt")) and not (isinstance(sc, dict) and sc.get("name") in ("linear", "octave", "mel", "bark")):
            self.rec.count("layout_unknown_scale")
            return
        if hi is None and rate % 2:
            self.rec.count("layout_default_high_odd_rate_skipped")
            return
        if isinstance(sc, dict) and sc.get("name") in ("mel", "bark"):
            sc = sc["name"]
        cfg = {"name": name, "num_filts": a["num_filts"], "sampling_rate": rate, "low_hz": lo, "high_hz": hi, "scaling_function": sc}
        bank = c.self
        try:
            verts, edges, cen = filtgen.layout(cfg)
        except Exception:
            self.rec.count("layout_reference_undefined")
            return
        got_c = np.array(bank.centers_hz, dtype=float)
        sup = bank.supports_hz
        self.rec.count("layout_checks")
        if len(got_c) != a["num_filts"] or len(sup) != a["num_filts"]:
            self.v("%s has %d centres for num_filts=%d" % (name, len(got_c), a["num_filts"]), check="layout", **info)
            return
        scale = max(1.0, float(np.max(np.abs(cen))))
        if not np.all(np.abs(got_c - np.array(cen)) <= 1e-9 * scale):
            k = int(np.argmax(np.abs(got_c - np.array(cen))))
            self.v("%s centre %d at %r Hz; equally spaced on the scale it is %r Hz" % (name, k, float(got_c[k]), cen[k]), check="layout", filt=k, **info)
        if verts is not None:
            for i in range(a["num_filts"]):
                if not (abs(sup[i][0] - verts[i]) <= 1e-9 * scale and abs(sup[i][1] - verts[i + 2]) <= 1e-9 * scale):
                    self.v("%s filter %d spans %r Hz; vertices equally spaced on the scale give (%r, %r)" % (name, i, tuple(sup[i]), verts[i], verts[i + 2]), check="layout", filt=i, **info)
                    break
        if not np.all(np.diff(got_c) > 0):
            self.v("%s centres are not strictly increasing" % name, check="centres_order", **info)
        finite = np.all(np.isfinite(np.array(sup, dtype=float)))
        if not finite:
            self.v("%s supports_hz are not finite: %r" % (name, sup[0]), check="supports_finite", **info)
        elif any(not (sup[i][0] <= got_c[i] <= sup[i][1]) for i in range(len(sup))):
            self.v("%s: a centre lies outside its supports_hz" % name, check="centre_inside", **info)
        self.cfg_of[id(bank)] = cfg


def _describe_scale(sc):
    """a scale handed over as an object is described by its class and its documented public attributes as they read now"""
    from pydrobert.speech import scales as S

    if type(sc) is S.MelScaling:
        return "mel"
    if type(sc) is S.BarkScaling:
        return "bark"
    if type(sc) is S.LinearScaling:
        return {"name": "linear", "low_hz": float(sc.low_hz), "slope_hz": float(sc.slope_hz)}
    if type(sc) is S.OctaveScaling:
        return {"name": "octave", "low_hz": float(sc.low_hz)}
    return sc


def _qfit_peak(logH, k):
    """3-point quadratic fit around index k -> (offset in bins, peak value of log)"""
    a, b, c = logH[k - 1], logH[k], logH[k + 1]
    den = a - 2 * b + c
    if den == 0:
        return 0.0, b
    off = 0.5 * (a - c) / den
    return off, b - 0.25 * (a - c) * off


def _interp_log(P, x):
    """quadratic (3-point Lagrange) interpolation of log P at fractional index x"""
    k = int(round(x))
    k = min(max(k, 1), len(P) - 2)
    t = x - k
    la, lb, lc = math.log(P[k - 1]), math.log(P[k]), math.log(P[k + 1])
    return math.exp(lb + 0.5 * t * (lc - la) + 0.5 * t * t * (la - 2 * lb + lc))


def shape_checks(mon, rec, cfg, i, H, base, W, cen, edges, info, tag):
    """peak position / unit gain / ERB / 3 dB statements on magnitudes H whose element j is DFT bin base + j of W"""
    name = cfg["name"]
    rate = cfg["sampling_rate"]
    l2 = bool(cfg.get("scale_l2_norm"))
    bw = edges[i + 1] - edges[i]
    k = int(np.argmax(H))
    if 1 <= k < len(H) - 1:
        off, lpk = _qfit_peak(np.log(H), k)
        pos = (base + k + off) * rate / W
        if abs(pos - cen[i]) > 0.5 * rate / W + 1e-9 * rate:
            mon.v("%s filter %d peaks at %.4f Hz, centre is %.4f Hz (bin %.3g Hz)%s" % (name, i, pos, cen[i], rate / W, tag), check="peak_position", W=W, **info)
        if not l2:
            rec.count("unit_gain_checks")
            if abs(math.exp(lpk) - 1.0) > 2e-3:
                mon.v("%s filter %d peak gain %.6f, documented 1%s" % (name, i, math.exp(lpk), tag), check="gain", W=W, **info)
    else:
        mon.v("%s filter %d: maximum of the response lies on the border of its advertised frequency support%s" % (name, i, tag), check="peak_position", W=W, **info)
    P = H ** 2 / H.max() ** 2
    if cfg.get("erb") and tag:
        rec.count("erb_not_checked_on_half_period_slice")  # the slice [0, Nyquist] cuts the tails the integral needs
    elif cfg.get("erb"):
        ratio = float(P.sum()) * rate / W / bw
        tol = 0.08 if (name == "gammatone" and cfg.get("order") == 1) else 0.015
        rec.count("erb_checks")
        if not abs(ratio - 1.0) <= tol:
            mon.v("%s filter %d (erb) equivalent rectangular bandwidth is %.4f x its edge spacing%s" % (name, i, ratio, tag), check="erb", W=W, **info)
    else:
        for edge in (edges[i], edges[i + 1]):
            x = edge * W / rate - base
            if 1 <= x < len(P) - 2:
                val = _interp_log(P, x)
                rec.count("three_db_checks")
                mon.worst3 = max(getattr(mon, "worst3", 0.0), abs(val - 0.5))
                if not abs(val - 0.5) <= 0.004:
                    mon.v("%s filter %d: |H|^2 at its edge %.3f Hz is %.4f of the peak, documented 3 dB (0.5)%s" % (name, i, edge, val, tag), check="3dB", W=W, **info)


def probe(mon, rec, cfg, bank, i, rng):
    name = cfg["name"]
    rate = cfg["sampling_rate"]
    verts, edges, cen = filtgen.layout(cfg)
    info = dict(cls=name, cfg=cfg, filt=i)
    lh, rh = bank.supports_hz[i]
    if name in ("tri", "fbank"):
        W = int(rng.choice([int(rng.integers(8, 64)), int(rng.integers(64, 700)), int(rng.integers(700, 2100))]))
        if rng.random() < 0.5:
            # other requests on the same bank first, with as many output bins as the one examined
            # (half spectra of the widths 2(W-1) and 2W-1 have W bins)
            for W0 in (2 * (W - 1), 2 * W - 1):
                if W0 >= 2:
                    bank.get_frequency_response(i, W0, half=True)
            rec.count("triangle_probes_after_requests_with_equal_bin_count")
        H = np.asarray(bank.get_frequency_response(i, W))
        rec.ev()
        rec.count("triangle_probes")
        want = np.zeros(W)
        for k in range(W):
            if 2 * k <= W:
                want[k] = filtgen.triangle(cfg, verts, i, rate * k / W)
            elif not cfg.get("analytic"):
                want[k] = filtgen.triangle(cfg, verts, i, rate * (W - k) / W)  # Hermitian mirror of a real filter
        # (the square root of Fbank amplifies rounding next to a vertex: compare there in the squared domain)
        bad = None if H.shape != (W,) else (np.abs(H - want) > 1e-9) & (np.abs(H ** 2 - want ** 2) > 1e-12)
        if bad is None or np.any(bad):
            k = int(np.argmax(np.abs(H - want) * bad)) if H.shape == (W,) else -1
            mon.v("%s filter %d bin %d of %d (%.6f Hz): response %r, documented triangle %r" % (name, i, k, W, rate * k / W, H[k].item() if k >= 0 else None, want[k] if k >= 0 else None),
                  check="triangle", W=W, **info)
        if np.count_nonzero(want) >= 3:
            rec.nt((repr(cfg), i, W))
        if rng.random() < 0.3 and isinstance(H, np.ndarray) and H.shape == (W,) and H.flags.writeable:
            # the caller squares what it was given, in place, and asks again: the answer is the same response
            H **= 2
            H2 = np.asarray(bank.get_frequency_response(i, W))
            rec.count("triangle_probes_repeated_after_the_client_overwrote_the_result")
            if H2.shape != (W,) or np.any((np.abs(H2 - want) > 1e-9) & (np.abs(H2 ** 2 - want ** 2) > 1e-12)):
                mon.v("%s filter %d width %d: the response asked for again after the caller overwrote the first answer is not the documented triangle" % (name, i, W),
                      check="triangle", W=W, **info)
        return
    # ---- Gabor / gammatone
    bw = edges[i + 1] - edges[i]
    l2 = bool(cfg.get("scale_l2_norm"))
    # unit L2 norm is a time-domain statement: it only needs the filter to be narrow against the
    # sampling rate (precondition from the documented edge spacing, not from the bank's own supports)
    if l2 and bw < rate / 16:
        l, r = bank.supports[i]
        Wt = max(64, 2 * (r - l))
        if Wt <= 6000:
            h = np.asarray(bank.get_impulse_response(i, Wt))
            nrm = math.sqrt(float(np.sum(np.abs(h) ** 2)))
            tol = 0.25 if (name == "gammatone" and cfg.get("order") == 1) else 0.02
            rec.ev()
            rec.count("l2_norm_checks")
            rec.nt((repr(cfg), i, "l2", Wt))
            if not abs(nrm - 1.0) <= tol:
                mon.v("%s filter %d (scale_l2_norm) impulse response has L2 norm %.6g" % (name, i, nrm), check="l2norm", W=Wt, **info)
    if not (rh - lh < rate / 2):
        rec.count("probes_skipped_wide_support")
        return
    # a width that resolves the bandwidth with >= 64 bins; only the non-zero region is computed
    # (get_truncated_response; C06 ties it to the full response), so large widths stay cheap
    W = int(min(1 << 24, max(64, 2 ** math.ceil(math.log2(64 * rate / bw)))))
    b0, buf = bank.get_truncated_response(i, W)
    H = np.abs(np.asarray(buf))
    if len(H) >= W or len(H) > 400000:
        rec.count("probes_skipped_whole_period_fallback")
        return
    rec.ev()
    rec.count("gain_bandwidth_probes_" + name)
    rec.nt((repr(cfg), i, W))
    if len(H) < 5 or not np.all(np.isfinite(H)) or H.max() <= 0:
        mon.v("%s filter %d: truncated response at width %d is empty / non-finite" % (name, i, W), check="finite", W=W, **info)
        return
    k = int(np.argmax(H))
    # absolute bin index of buffer position j is b0 + j (modulo W); undo the modulo with the centre as a guide
    base = b0 if abs((b0 + k) * rate / W - cen[i]) <= rate / 2 else b0 - W
    shape_checks(mon, rec, cfg, i, H, base, W, cen, edges, info, "")
    # the same statements on get_frequency_response itself (full and half=True, odd and even widths) where the
    # bandwidth is wide enough for a directly computed response to resolve it
    W2 = int(64 * rate / bw)
    if W2 <= 4096 and 0 < cen[i] < rate / 2:
        W2 += int(rng.integers(0, 2))
        half = bool(rng.integers(0, 2))
        H2 = np.abs(np.asarray(bank.get_frequency_response(i, W2, half=half) if W2 % 3 else bank.get_frequency_response(i, W2, half)))  # (keyword / positional)
        rec.ev()
        rec.count("direct_response_probes_%s_%s_width" % ("half" if half else "full", "odd" if W2 % 2 else "even"))
        want_len = (W2 // 2 + 1 if W2 % 2 == 0 else (W2 + 1) // 2) if half else W2
        if H2.shape != (want_len,):
            mon.v("%s filter %d: get_frequency_response(width=%d, half=%r) has shape %r, documented (%d,)" % (name, i, W2, half, H2.shape, want_len), check="response_shape", W=W2, **info)
        elif np.all(np.isfinite(H2)) and H2.max() > 0:
            shape_checks(mon, rec, cfg, i, H2[: W2 // 2 + 1], 0, W2, cen, edges, info, " (get_frequency_response width %d half=%r)" % (W2, half))


def run_case(case, rec, mon=None):
    own = mon is None
    if own:
        monitor.detach_all()
        mon = Mon(rec)
        mon.attach()
    mon.case = case
    rng = rng_for(case["seed"], "C05", case["idx"], 1)
    cfg = case["cfg"]
    kind = case.get("kind", "bank")
    if kind == "bank":
        strict = monitor.strict_settings() if case["idx"] % 6 == 4 else contextlib.nullcontext()
        if case["idx"] % 6 == 4:
            rec.count("banks_built_under_strict_process_settings")
        build_cfg = cfg
        sc = cfg.get("scaling_function")
        if case["idx"] % 8 == 6 and isinstance(sc, dict) and sc.get("name") in ("linear", "octave"):
            # the scale as an object that has been used with other parameters before: `low_hz` / `slope_hz` are documented public
            # attributes, assigned here before the bank is built
            from pydrobert.speech import scales as S

            if sc["name"] == "octave":
                obj = S.OctaveScaling(3 * sc["low_hz"] + 1)
            else:
                obj = S.LinearScaling(sc["low_hz"] + 10.0, 2 * sc.get("slope_hz", 1.0))
            obj.scale_to_hertz(obj.hertz_to_scale(1000.0))
            obj.low_hz = sc["low_hz"]
            if sc["name"] == "linear":
                obj.slope_hz = sc.get("slope_hz", 1.0)
            build_cfg = dict(cfg, scaling_function=obj)
            rec.count("banks_built_on_a_scale_object_retuned_after_use")
        try:
            with strict:
                bank = gen.build_bank(build_cfg)
        except Exception as e:
            # the generator only produces ranges and flags the documentation allows: such a bank exists
            rec.count("bank_construction_raised")
            mon.v("constructing the %s bank raised %r for a valid configuration" % (cfg["name"], e), check="construct", cls=cfg["name"], cfg=cfg)
            bank = None
        if bank is not None and case["idx"] % 7 == 2:
            # the bank as a worker process / a copied computer sees it: a deep copy, a pickle round trip, a shallow copy.  The copy
            # is a bank of the same configuration and is held to the same documented layout and normalisation
            from ..common import copied, COPY_WAYS

            way = COPY_WAYS[(case["idx"] // 7) % 3]
            try:
                bank = copied(bank, way)
                rec.count("banks_probed_through_a_%s" % way)
            except Exception as e:
                mon.v("copying (%s) a %s bank raised %r" % (way, cfg["name"], e), check="copy_raise", cls=cfg["name"], cfg=cfg)
                bank = None
        if bank is not None and case["idx"] % 3 == 0:
            from ..common import poke

            poke(bank)

            from ..common import scribble


            if case["idx"] % 3 == 0:

                scribble(bank)  # ... and overwrites the arrays the properties handed out (centres in kHz, say)

                rec.count("banks_whose_property_values_were_overwritten_by_the_caller")
            rec.count("banks_inspected_before_the_first_probe")
        if bank is not None:
            nf = bank.num_filts
            for i in sorted({0, nf - 1, int(rng.integers(nf))}):
                try:
                    probe(mon, rec, cfg, bank, i, rng)
                except Exception as e:
                    mon.v("probing %s filter %d raised %r" % (cfg["name"], i, e), check="probe_raise", cls=cfg["name"], cfg=cfg, filt=i)
        rec.sample({"cfg": cfg})
    else:
        # rejection / acceptance contract
        classes = _classes()
        rate = cfg["sampling_rate"]
        nyq = rate / 2
        tries = [(-1.0, None), (-1e-9, nyq / 2), (100.0, 100.0), (200.0, 100.0), (10.0, nyq + 1.5), (10.0, nyq + 100), (0.0, float(math.floor(nyq))),
                 (0.0, nyq / 3), (float(rng.uniform(0, nyq / 2)), float(math.floor(nyq)))]
        # negative lower edges at and around the poles of the scale formulas (-700 Hz mel, -1960 Hz Bark), tiny and huge
        tries += [(lo, hi) for lo in (-700.0, -701.5, -1960.0, -2000.25, -1e9, -1e-300) for hi in (None, nyq / 2)]
        scales = ["mel", "bark", {"name": "linear", "low_hz": 0.0, "slope_hz": 1.0}, {"name": "octave", "low_hz": 20.0}]
        for k, (lo, hi) in enumerate(tries):
            for name, cls in classes.items():
                kw = dict(num_filts=3, high_hz=hi, low_hz=lo, sampling_rate=rate)
                for sc in (scales if lo < 0 else scales[k % 4:k % 4 + 1]):
                    try:
                        cls(**kw) if name == "fbank" else cls(copy.deepcopy(sc), **kw)
                    except Exception:
                        pass
                    if name == "fbank":
                        break
        rec.sample({"kind": "ranges", "rate": rate})
        rec.nt(("ranges", rate))
    if own:
        monitor.report(rec)
        monitor.detach_all()


def plan(tier, seed):
    n = 4000 if tier == "quick" else 60000
    return [{"a": a, "b": b, "seed": seed} for a, b in split(n, 16)]


def run_shard(spec, rec):
    if "suite" in spec:
        from .. import suite

        return suite.run(__name__.rsplit(".", 1)[-1], spec, rec)
    mon = Mon(rec)
    mon.attach()
    for i in range(spec["a"], spec["b"]):
        rng = rng_for(spec["seed"], "C05", i, 0)
        cfg = filtgen.bank_cfg(rng)
        if i % 12 == 5 and cfg["name"] != "fbank":
            # a scaling function defined by the user against the documented interface (numbers in, numbers out): alias "vfsqrt"
            cfg = dict(cfg, scaling_function="vfsqrt")
            rec.count("banks_on_a_user_defined_scale")
        run_case({"idx": i, "seed": spec["seed"], "cfg": cfg}, rec, mon)
        if i % 25 == 0:
            run_case({"idx": i, "seed": spec["seed"], "cfg": {"sampling_rate": int(rng.choice(filtgen.RATES))}, "kind": "ranges"}, rec, mon)
        if i % 50 == 10:
            # siblings of this bank in the same process: same class family, scale, filter count and low_hz, but another
            # sampling rate / the default high_hz / the other complex bank class (whatever is shared between banks must not leak)
            for j, rate2 in enumerate((8000, 16000, 11025 if cfg["name"] == "tri" else 22050)):  # (the default high_hz at an odd rate is documented for the triangular bank only)
                sib = dict(cfg, sampling_rate=rate2, high_hz=None if j != 1 else float(rate2 // 4))
                sib.pop("_kinds", None)
                sib["low_hz"] = float(min(cfg["low_hz"], rate2 / 8))
                if isinstance(sib.get("scaling_function"), dict) and sib["scaling_function"].get("name") == "octave":
                    sib["low_hz"] = max(sib["low_hz"], sib["scaling_function"]["low_hz"])
                if cfg["name"] in ("gabor", "gammatone") and j == 2:
                    other = "gammatone" if cfg["name"] == "gabor" else "gabor"
                    sib = {k: v for k, v in sib.items() if k in ("num_filts", "sampling_rate", "low_hz", "high_hz", "scaling_function")}
                    sib["name"] = other
                run_case({"idx": 10 ** 7 + 10 * i + j, "seed": spec["seed"], "cfg": sib}, rec, mon)
                rec.count("sibling_banks_in_one_process")
    rec.extra["worst_deviation_from_bound"] = {"3dB |ratio - 0.5| (bound 0.004)": round(float(getattr(mon, "worst3", 0.0)), 6)}
    monitor.report(rec)
    monitor.detach_all()


def finish(rec):
    monitor.require(rec, [c + ".__init__" for c in ("TriangularOverlappingFilterBank", "Fbank", "GaborFilterBank", "ComplexGammatoneFilterBank")])
    for k in ("layout_checks", "triangle_probes", "gain_bandwidth_probes_gabor", "gain_bandwidth_probes_gammatone", "unit_gain_checks", "l2_norm_checks", "erb_checks",
              "three_db_checks", "invalid_ranges_seen"):
        if not rec.counters[k]:
            rec.inconc("check %s never ran" % k)


def classify(w):
    return None
