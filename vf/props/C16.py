"""C16 - Standardize normalises with exactly the statistics it was given.

History monitor: a shadow model per Standardize instance (WeakKeyDictionary) holds the
multiset of feature vectors the instance has been given, accumulated by an independent
accumulator (lists per coefficient, math.fsum, two-pass variance).  post(accumulate)
updates it; post(apply) compares the real result with (x-mean)/std from the shadow model,
or with the tensor's own moments when the instance has no statistics.
"""
import math
import os
import tempfile
import warnings
import weakref

import numpy as np

from .. import monitor
from ..common import rng_for, close

OPTIMIZED_SHARDS = 1  # shards run once more in an interpreter started with -O (vf/run.py)
LEVEL = "exploration"
TECHNIQUE = "history monitor: per-instance shadow accumulator (math.fsum, two-pass moments) updated on accumulate and compared on every apply; read-only inputs; ambient-settings monitor (stateless calls repeated under -W error and np.errstate raise)"
RULE = (
    "histories: one seeded data set (1-6 coefficients, 2-200 vectors, float32/float64/int16/int32, negative and large means with |mean|/std <= 1e3) "
    "is split and permuted in different random ways (1-D vectors, 2-D/3-D tensors along any axis) into 2-4 instances, then probed with vectors and "
    "tensors along several axes; non-trivial = an apply on an instance whose statistics came from >= 2 accumulate calls of different kinds, or a "
    "self-standardised tensor with >= 2 vectors; distinct by (history signature, probe shape, axis, dtype, norm_var)"
)
ASSUMPTIONS = [
    "data are conditioned so that per-coefficient variance is >= 1e-2 and |mean|/std <= 1e3 (the zero-variance replacement and the stability of the one-pass variance formula are not part of the statement)",
    "tolerance 1e-7 relative to the largest expected magnitude (the implementation's E[x^2]-mean^2 loses ~eps*1e6 at the conditioning limit)",
    "a 1-D input without statistics is outside the statement (it is an error / a warning case in the implementation)",
]
ANCHOR_FILES = ("src/pydrobert/speech/post.py",)
EXHAUSTIVE_PARTS = []
SUITE_TESTS = ['tests/test_post.py', 'tests/test_command_line.py']  # the repository's own tests as an extra monitored workload (thorough tier)
LEVEL_TEXT = (
    "Every accumulate/apply call of hundreds (quick) to thousands (thorough) of seeded multi-instance histories is shadowed by an independent "
    "accumulator and every apply result compared with the exact transform of the accumulated multiset; additivity is checked by giving the same data "
    "to several instances through different splits. Sampled exploration over histories."
)
LEVEL_NOTE = "Trusts math.fsum and NumPy indexing in the shadow model."


class Shadow:
    __slots__ = ("cols", "n", "kinds", "applied_at")

    def __init__(self):
        self.cols = None
        self.n = 0
        self.kinds = set()
        self.applied_at = None

    def add(self, vecs, kind):
        # vecs: (k, F) float64
        if self.cols is None:
            self.cols = [[] for _ in range(vecs.shape[1])]
        for f in range(vecs.shape[1]):
            self.cols[f].extend(float(v) for v in vecs[:, f])
        self.n += vecs.shape[0]
        self.kinds.add(kind)

    def moments(self):
        means, varss = [], []
        for col in self.cols:
            m = math.fsum(col) / self.n
            v = math.fsum((x - m) ** 2 for x in col) / self.n
            means.append(m)
            varss.append(v)
        return np.array(means), np.array(varss)


def _vectors(t, axis):
    t = np.asarray(t)
    if t.ndim <= 1:
        return t.reshape(1, -1).astype(np.float64)
    return np.moveaxis(t, axis, -1).reshape(-1, t.shape[axis]).astype(np.float64)


class Mon:
    def __init__(self, rec):
        self.rec = rec
        self.case = None
        self.shadow = weakref.WeakKeyDictionary()

    def attach(self):
        from pydrobert.speech import post as P

        monitor.capture_init(P.Standardize)
        monitor.attach(P.Standardize, "accumulate", pre=self.pre_acc, post=self.post_acc)
        monitor.attach(P.Standardize, "apply", pre=self.pre_apply, post=self.post_apply, ambient=self.v, ambient_ok=monitor.not_in_place)

    def v(self, what, **kw):
        self.rec.violation(dict(what=what, case=self.case, **kw))

    def adopt(self, new, old):
        """the driver tells the monitor that `new` was loaded from statistics saved by `old`"""
        sh = self.shadow.get(old)
        if sh is not None:
            s2 = Shadow()
            s2.cols = [list(c) for c in sh.cols]
            s2.n = sh.n
            s2.kinds = set(sh.kinds) | {"loaded"}
            self.shadow[new] = s2

    def pre_acc(self, c):
        kw = {"axis": -1}
        kw.update(dict(zip(("features", "axis"), c.args)))
        kw.update(c.kwargs)
        return {"copy": np.array(kw["features"], copy=True), "kw": kw}

    def post_acc(self, c):
        st = c.state
        if st is None:
            return
        before, kw = st["copy"], st["kw"]
        self.rec.ev()
        self.rec.count("accumulate_calls")
        sh = self.shadow.get(c.self)
        F_have = len(sh.cols) if sh is not None and sh.cols is not None else None
        F_new = before.shape[kw["axis"]] if before.ndim > 1 else before.shape[0] if before.ndim == 1 else None
        info = dict(op="accumulate", shape=list(before.shape), dtype=str(before.dtype), axis=kw["axis"])
        if before.size == 0 or F_new is None:
            self.rec.count("accumulate_out_of_scope")
            return
        if F_have is not None and F_new != F_have:
            self.rec.count("accumulate_wrong_dim")
            if not isinstance(c.exc, ValueError):
                self.v("accumulate with %d coefficients on an instance holding %d did not raise ValueError (%r)" % (F_new, F_have, c.exc), check="dim_mismatch", **info)
            return
        if c.exc is not None:
            self.v("accumulate raised %r" % (c.exc,), check="raise", **info)
            return
        if not np.array_equal(np.asarray(kw["features"]), before):
            self.v("accumulate modified its input", check="input_modified", **info)
        if sh is None:
            sh = self.shadow[c.self] = Shadow()
        kind = "vec" if before.ndim <= 1 else "t%d_ax%d" % (before.ndim, kw["axis"] % before.ndim)
        sh.add(_vectors(before, kw["axis"]), kind)
        if not bool(c.self.have_stats):
            self.v("have_stats is false after accumulate", check="have_stats", **info)

    def pre_apply(self, c):
        kw = {"axis": -1, "in_place": False}
        kw.update(dict(zip(("features", "axis", "in_place"), c.args)))
        kw.update(c.kwargs)
        return {"copy": np.array(kw["features"], copy=True), "kw": kw}

    def post_apply(self, c):
        st = c.state
        if st is None:
            return
        before, kw = st["copy"], st["kw"]
        inst = c.self
        axis = kw["axis"]
        self.rec.ev()
        self.rec.count("apply_calls")
        sh = self.shadow.get(inst)
        if sh is not None:
            if getattr(sh, "applied_at", None) not in (None, sh.n):
                self.rec.count("apply_after_further_accumulation")
            sh.applied_at = sh.n
        ca = monitor.ctor_args(inst)
        norm_var = bool(ca["norm_var"]) if ca is not None else bool(inst._norm_var)
        info = dict(op="apply", shape=list(before.shape), dtype=str(before.dtype), axis=axis, in_place=bool(kw["in_place"]), norm_var=norm_var,
                    stats="none" if sh is None else "n=%d kinds=%s" % (sh.n, sorted(sh.kinds)))
        if before.size == 0 or before.ndim == 0:
            self.rec.count("apply_out_of_scope")
            return
        F = before.shape[axis] if before.ndim > 1 else before.shape[0]
        if sh is not None and F != len(sh.cols):
            self.rec.count("apply_wrong_dim")
            if not isinstance(c.exc, ValueError):
                self.v("apply with %d coefficients on statistics for %d did not raise ValueError (got %r)" % (F, len(sh.cols), c.exc), check="dim_mismatch", **info)
            return
        if sh is None and ((ca is not None and ca.get("rfilename") is not None) or (ca is None and inst._stats is not None)):
            self.rec.count("apply_unknown_stats_origin")  # loaded from a file the monitor knows nothing about
            return
        if sh is None and before.ndim == 1:
            # a lone vector without statistics: its own mean is itself (the documented outcome is a warning and zeros when norm_var is
            # off, a refusal when it is on).  Whatever comes back is float64, and the caller's vector is untouched unless in_place
            if c.exc is None:
                out = np.asarray(c.result)
                self.rec.count("apply_lone_vector_without_statistics")
                if out.dtype != np.float64 or out.shape != before.shape:
                    self.v("apply on a lone vector without statistics returned %s %r for a %s vector of %d" % (out.dtype, out.shape, before.dtype, before.shape[0]), check="dtype", **info)
                elif norm_var is False and np.any(out != 0):
                    self.v("apply on a lone vector without statistics (norm_var off) is not the vector minus its own mean (0)", check="value", **info)
                if not kw["in_place"]:
                    if not np.array_equal(np.asarray(kw["features"]), before):
                        self.v("apply(in_place=False) modified its input (lone vector without statistics)", check="input_modified", **info)
                    elif before.size and np.shares_memory(out, np.asarray(kw["features"])):
                        self.v("apply(in_place=False) returned the caller's own vector (lone vector without statistics)", check="input_modified", **info)
            else:
                self.rec.count("apply_out_of_scope")
            return
        vecs = _vectors(before, axis)
        if sh is None:
            if vecs.shape[0] < 2:
                self.rec.count("apply_out_of_scope")
                return
            means = np.array([math.fsum(vecs[:, f]) / vecs.shape[0] for f in range(F)])
            varss = np.array([math.fsum((x - means[f]) ** 2 for x in vecs[:, f]) / vecs.shape[0] for f in range(F)])
            self.rec.count("apply_self_standardised")
        else:
            means, varss = sh.moments()
            self.rec.count("apply_with_stats")
        if np.any(varss < 1e-3):
            self.rec.count("apply_out_of_scope_small_variance")
            return
        if np.any(np.abs(means) > 1e3 * np.sqrt(varss)):
            # (happens for applies in the middle of a history, when few vectors have been seen)
            self.rec.count("apply_out_of_scope_ill_conditioned")
            return
        if c.exc is not None:
            self.v("apply raised %r" % (c.exc,), check="raise", **info)
            return
        out = np.asarray(c.result)
        if out.dtype != np.float64:
            self.v("apply returned dtype %s, documented float64" % out.dtype, check="dtype", **info)
            return
        if out.shape != before.shape:
            self.v("apply returned shape %r for input %r" % (out.shape, before.shape), check="shape", **info)
            return
        want = vecs - means
        if norm_var:
            want = want / np.sqrt(varss)
        if before.ndim > 1:
            want = np.moveaxis(want.reshape(np.moveaxis(before, axis, -1).shape), -1, axis)
        else:
            want = want.reshape(before.shape)
        S = float(np.max(np.abs(want))) if want.size else 1.0
        ok, i, exc = close(out, want, 1e-7, 1e-7 * max(S, 1e-300))
        if not ok:
            self.v("apply value at %r is %r, (x-mean)/std of the accumulated vectors gives %r" % (i, out[i].item(), want[i].item()), check="value", **info)
        if not kw["in_place"] and not np.array_equal(np.asarray(kw["features"]), before):
            self.v("apply(in_place=False) modified its input", check="input_modified", **info)
        if sh is None:
            o = _vectors(out, axis)
            m0 = np.abs(o.mean(0))
            v0 = o.var(0)
            if np.any(m0 > 1e-6 * max(1.0, S)) or (norm_var and np.any(np.abs(v0 - 1) > 1e-6)):
                self.v("self-standardised tensor has mean %r variance %r" % (m0.tolist(), v0.tolist()), check="self_moments", **info)
            self.rec.nt(("self", tuple(before.shape), axis, str(before.dtype), norm_var))
        elif len(sh.kinds) >= 2:
            self.rec.nt((self.case.get("idx") if self.case else None, sorted(sh.kinds), sh.n, tuple(before.shape), axis, str(before.dtype), norm_var, bool(kw["in_place"])))


def _dataset(rng, big=False, huge=False):
    F = int(rng.integers(1, 7))
    N = int(rng.choice([2, 3, 5, 12, 40, int(rng.integers(6, 200))]))
    if big:
        # long enough for accumulate calls of 2^k frames (block sizes of a chunked reduction) and their neighbours
        N = int(rng.choice([1024 + 37, 2048 + 5, 4096 + 100, 512 + 256 + 3, 3000, 8192 + 1]))
    if huge:
        # a corpus: the number of vectors passes 2^15, 2^16 (and 2^17) while the statistics are collected
        N = int(rng.choice([32768 + 11, 65536 + 3, 65536 + 4096 + 1, 131072 + 5]))
        F = int(rng.integers(1, 4))
    dtype = str(rng.choice(["float64", "float64", "float32", "int16", "int32"]))
    if dtype.startswith("int"):
        lim = 3000 if dtype == "int16" else 200000
        std = rng.uniform(0.02, 0.3, F) * lim
        mean = rng.uniform(-0.6, 0.6, F) * lim
        data = np.clip(np.round(rng.standard_normal((N, F)) * std + mean), -lim * 10, lim * 10)
        if dtype == "int16":
            data = np.clip(data, -32000, 32000)
        data = data.astype(dtype)
    else:
        std = np.exp(rng.uniform(np.log(0.2), np.log(50), F))
        ratio = np.where(rng.random(F) < 0.3, rng.uniform(50, 800, F), rng.uniform(0, 5, F))
        mean = std * ratio * rng.choice([-1, 1], F)
        if dtype == "float32":
            mean = np.where(np.abs(mean) / std > 50, mean / np.abs(mean) * 50 * std, mean)
        data = (rng.standard_normal((N, F)) * std + mean).astype(dtype)
    # make sure every coefficient really varies
    for f in range(F):
        if np.var(data[:, f].astype(np.float64)) < 1e-2:
            data[:, f] = (np.arange(N) % 2 * 4 - 2 + data[:, f]).astype(dtype)
    return data


def _feed(inst, data, rng, style):
    """give all rows of data (N,F) to inst in the given style"""
    from ..common import relayout

    N, F = data.shape
    order = rng.permutation(N) if rng.random() < 0.7 else np.arange(N)
    data = data[order]
    pos = 0
    calls = []
    while pos < N:
        if pos and rng.random() < 0.15:
            # an apply between two accumulate calls: the transform must follow the statistics so far
            probe = np.array(data[int(rng.integers(N))], dtype=np.float64) if rng.random() < 0.5 else np.array(data[: int(rng.integers(1, 4))], dtype=np.float64)
            probe.setflags(write=False)
            try:
                inst.apply(probe)
            except Exception:
                pass
            calls.append("apply")
        if pos and rng.random() < 0.12:
            # a refused call (wrong feature dimension, vector or tensor) must leave the statistics as they were
            Fb = int(rng.choice([1, F + 1, F + 2])) if F > 1 else F + int(rng.integers(1, 3))
            bad = np.ones((int(rng.integers(1, 4)), Fb)) * 7.0 if rng.random() < 0.7 else np.ones(Fb) * 7.0
            if rng.random() < 0.3 and bad.ndim == 2:
                bad = bad.reshape(1, bad.shape[0], Fb)
            try:
                inst.accumulate(bad)
            except Exception:
                pass
            calls.append("refused")
        kind = style if style != "mixed" else str(rng.choice(["vec", "t2", "t2T", "t3", "t3mid"]))
        left = N - pos
        if style == "blocks":
            sizes = [k + d for k in (64, 128, 256, 512, 1024, 2048, 4096, 8192) + ((16384, 32768, 65536) if N > 30000 else ()) for d in (0, 0, 1, -1) if k + d <= left]
            k = int(rng.choice(sizes)) if sizes else left
            kind = str(rng.choice(["t2", "t2T", "t3", "t3mid"]))
            blk = data[pos:pos + k]
            if kind == "t2":
                x = np.array(blk)
                ax = -1
            elif kind == "t2T":
                x = np.array(blk.T)
                ax = 0
            else:
                a = int(rng.choice([d for d in (1, 2, 4) if k % d == 0]))
                x = np.array(blk.reshape(a, k // a, F))
                ax = 2
                if kind == "t3mid":
                    x = np.array(np.moveaxis(x, -1, 1))
                    ax = 1
            x = relayout(rng, x)
            x.setflags(write=False)
            inst.accumulate(x, axis=ax)
            pos += k
            calls.append("%s:block%d" % (kind, k))
            continue
        if kind == "vec" or left == 1:
            x = np.array(data[pos]); x = relayout(rng, x); x.setflags(write=False)
            r_ax = rng.random()
            # (the only axis of a vector is 0 and -1 alike)
            inst.accumulate(x) if r_ax < 0.6 else inst.accumulate(x, 0) if r_ax < 0.8 else inst.accumulate(x, axis=-1)
            pos += 1
            calls.append("vec")
        elif kind == "t2":
            k = int(rng.integers(1, left + 1))
            x = np.array(data[pos:pos + k]); x = relayout(rng, x); x.setflags(write=False)
            inst.accumulate(x) if rng.random() < 0.5 else inst.accumulate(x, axis=1)
            pos += k
            calls.append("t2:%d" % k)
        elif kind == "t2T":
            k = int(rng.integers(1, left + 1))
            x = np.array(data[pos:pos + k].T); x = relayout(rng, x); x.setflags(write=False)
            inst.accumulate(x, 0) if rng.random() < 0.5 else inst.accumulate(x, axis=-2)
            pos += k
            calls.append("t2T:%d" % k)
        else:
            a = int(rng.integers(1, 4))
            b = int(rng.integers(1, max(2, left // a + 1)))
            if a * b > left:
                a, b = 1, min(b, left)
            blk = data[pos:pos + a * b].reshape(a, b, F)
            if kind == "t3":
                x = np.array(blk); x = relayout(rng, x); x.setflags(write=False)
                inst.accumulate(x, axis=int(rng.choice([-1, 2])))
            else:
                x = np.array(np.moveaxis(blk, -1, 1)); x = relayout(rng, x); x.setflags(write=False)
                inst.accumulate(x, axis=int(rng.choice([1, -2])))
            pos += a * b
            calls.append("%s:%dx%d" % (kind, a, b))
    return calls


def run_case(case, rec, mon=None):
    own = mon is None
    if own:
        monitor.detach_all()
        mon = Mon(rec)
        mon.attach()
    mon.case = case
    from pydrobert.speech import post as P

    from ..common import relayout

    rng = rng_for(case["seed"], "C16", case["idx"])
    with warnings.catch_warnings():
        warnings.simplefilter("ignore")
        big = case["idx"] % 12 == 7
        huge = case["idx"] % 96 == 7
        data = _dataset(rng, big, huge)
        if huge:
            rec.count("data_sets_of_more_than_2^15_vectors")
        N, F = data.shape
        norm_var = bool(rng.random() < 0.75)
        K = int(rng.integers(2, 5))
        styles = ["vec", "t2", "mixed", "mixed", "t2T", "t3"]
        if big:
            styles = ["blocks"]
            rec.count("long_data_sets_fed_in_power_of_two_blocks")
        insts, hist = [], []
        for k in range(K):
            inst = P.Standardize(norm_var=norm_var)
            st = styles[int(rng.integers(len(styles)))] if k else ("t2" if big else "vec")
            hist.append((st, _feed(inst, data, rng, st)))
            insts.append(inst)
        differs = None
        differs2 = []
        # a reloaded instance (npy) gets the saver's shadow
        if rng.random() < 0.3:
            d = tempfile.mkdtemp(prefix="c16_")
            try:
                path = os.path.join(d, "s.npy")
                if case["idx"] % 4 == 1:
                    # (the statistics may as well travel through an archive, compressed or not: the numbers are the same)
                    path = os.path.join(d, "s.npz")
                    insts[0].save(path, compress=bool(case["idx"] % 8 == 1))
                    rec.count("statistics_reloaded_from_an_archive" + ("_compressed" if case["idx"] % 8 == 1 else ""))
                else:
                    insts[0].save(path)
                # (loading options are passed on to the reader: the statistics may be read through a memory map of the file)
                mm = [{}, {"mmap_mode": "r"}, {}, {"mmap_mode": "r+"}, {"mmap_mode": "c"}][case["idx"] % 5] if path.endswith(".npy") else {}
                if mm:
                    rec.count("statistics_loaded_through_a_memory_map_" + mm["mmap_mode"].replace("+", "plus"))
                if case["idx"] % 2 == 0:
                    # statistics as another program wrote them: a raw file of single-precision numbers.  "Exactly the statistics it was
                    # given": the object works with those numbers as they are, like one given the same numbers in double precision
                    raw = os.path.join(d, "s.bin")
                    insts[0].save(raw)
                    s32 = np.fromfile(raw, dtype=np.float64).astype(np.float32)
                    s32.tofile(os.path.join(d, "s32.bin"))
                    np.save(os.path.join(d, "s32as64.npy"), s32.astype(np.float64).reshape(2, -1))
                    try:
                        L32 = P.Standardize(os.path.join(d, "s32.bin"), norm_var=norm_var, force_as="file")
                        L64 = P.Standardize(os.path.join(d, "s32as64.npy"), norm_var=norm_var)
                    except Exception:
                        L32 = L64 = None
                        rec.count("single_precision_raw_statistics_not_recognised")
                    if L32 is not None:
                        rec.count("single_precision_raw_statistics_loaded")
                        more32 = np.array(data[rng.permutation(N)[: max(1, min(N, 40) // 2)]], dtype=np.float64)
                        px = np.array(data[: min(N, 5)], dtype=np.float64) * 1.25 + 0.5
                        for rnd in range(2):
                            try:
                                with monitor.quiet():
                                    o32, o64 = L32.apply(np.array(px)), L64.apply(np.array(px))
                            except ValueError as e:
                                if rnd == 0 and "Expected feature vector" in str(e):
                                    # a raw file does not say what its numbers are: these single-precision bytes also read as plausible
                                    # double-precision statistics (of another dimension).  Inherent in the format, not judged
                                    rec.count("single_precision_raw_statistics_read_as_double_precision_ones")
                                else:
                                    mon.v("apply on statistics loaded from a single-precision raw file raised %r" % (e,), check="raw_float32", op="apply")
                                break
                            except Exception as e:
                                mon.v("apply on statistics loaded from a single-precision raw file raised %r" % (e,), check="raw_float32", op="apply")
                                break
                            rec.ev()
                            if not np.all(np.isfinite(o64)):
                                # (rounding the sums to single precision lost the variance of a coefficient: no transform to compare)
                                rec.count("single_precision_statistics_without_a_finite_transform")
                                break
                            S = float(np.max(np.abs(o64))) if o64.size else 1.0
                            if o32.shape != o64.shape or o32.dtype != o64.dtype or not np.all(np.abs(o32 - o64) <= 1e-11 * max(S, 1e-300)):
                                mon.v("statistics loaded from a single-precision raw file do not give the transform of the same numbers loaded in double precision "
                                      "(max |diff| %g, largest value %g%s)" % (float(np.max(np.abs(o32 - o64))) if o32.shape == o64.shape else -1, S, ", after further accumulation" if rnd else ""),
                                      check="raw_float32", op="apply")
                                break
                            with monitor.quiet():  # (the shadow model knows nothing of what these two were loaded with: the pair is judged against each other)
                                L32.accumulate(more32)
                                L64.accumulate(more32)
                loaded = P.Standardize(path, norm_var=norm_var, **mm)
                mon.adopt(loaded, insts[0])
                insts.append(loaded)
                rec.count("reloaded_instances")
                if rng.random() < 0.5:
                    # the same statistics under the other norm_var setting: what one object collected serves the other
                    flipped = P.Standardize(path, norm_var=not norm_var)
                    mon.adopt(flipped, insts[0])
                    insts.append(flipped)
                    differs2.append(flipped)
                    rec.count("statistics_reloaded_under_the_other_norm_var")
                if rng.random() < 0.6:
                    # a second object loaded from the same file; then more data for the first one only
                    loaded2 = P.Standardize(path, norm_var=norm_var)
                    mon.adopt(loaded2, insts[0])
                    insts.append(loaded2)
                    more = np.array(data[rng.permutation(N)[: max(1, N // 2)]], dtype=np.float64) * 1.5 + 1.0
                    more.setflags(write=False)
                    loaded.accumulate(more)
                    differs = loaded  # no longer holds the common data set: judged by its own shadow only
                    rec.count("two_objects_loaded_from_one_file_then_one_accumulates")
                    # ... and the file still holds what was saved: a third object loaded now has the saver's statistics
                    loaded3 = P.Standardize(path, norm_var=norm_var)
                    mon.adopt(loaded3, insts[0])
                    insts.append(loaded3)
            finally:
                for f in os.listdir(d):
                    os.unlink(os.path.join(d, f))
                os.rmdir(d)
        if case["idx"] % 3 == 1:
            # the object as a worker process gets it (deep copy, pickle round trip, shallow copy): the same statistics
            from ..common import copied, COPY_WAYS

            way = COPY_WAYS[(case["idx"] // 3) % 3]
            try:
                cp = monitor.adopt(copied(insts[0], way), insts[0])
                mon.adopt(cp, insts[0])
                insts.append(cp)
                rec.count("statistics_used_through_a_%s" % way)
            except Exception as e:
                mon.v("copying (%s) a Standardize object raised %r" % (way, e), check="copy_raise", op="apply")
        if case["idx"] % 4 == 2:
            from ..common import poke

            for inst in insts:
                poke(inst)  # attributes (have_stats among them) read, repr(), ==, hash() between accumulation and use
            rec.count("objects_inspected_between_accumulate_and_apply")
        # probes
        probes = []
        for _ in range(int(rng.integers(2, 6))):
            pk = str(rng.choice(["vec", "t2", "t2T", "t3", "t3mid", "t4"]))
            pdtype = str(rng.choice(["float64", "float32", str(data.dtype)]))
            scale = np.std(data.astype(np.float64), 0) + 1e-3
            mean = np.mean(data.astype(np.float64), 0)
            def draw(*lead):
                x = rng.standard_normal(tuple(lead) + (F,)) * scale * 2 + mean
                if pdtype.startswith("int"):
                    x = np.round(x)
                return x.astype(pdtype)
            if pk == "vec":
                probes.append((draw(), int(rng.choice([-1, 0]))))
            elif pk == "t2":
                probes.append((draw(int(rng.integers(1, 9))), int(rng.choice([-1, 1]))))
            elif pk == "t2T":
                probes.append((np.ascontiguousarray(draw(int(rng.integers(1, 9))).T), int(rng.choice([0, -2]))))
            elif pk == "t3":
                probes.append((draw(int(rng.integers(1, 4)), int(rng.integers(1, 5))), int(rng.choice([-1, 2]))))
            elif pk == "t3mid":
                probes.append((np.ascontiguousarray(np.moveaxis(draw(int(rng.integers(1, 4)), int(rng.integers(1, 5))), -1, 1)), int(rng.choice([1, -2]))))
            else:
                probes.append((np.ascontiguousarray(np.moveaxis(draw(2, 1, 3), -1, 0)), int(rng.choice([0, -4]))))
        for x, axis in probes:
            outs = []
            for inst in insts:
                in_place = bool(rng.random() < 0.2)
                xx = relayout(rng, np.array(x))
                if not in_place:
                    xx.setflags(write=False)
                try:
                    outs.append(inst.apply(xx, axis, in_place) if rng.random() < 0.5 else inst.apply(xx, axis=axis, in_place=in_place))
                except Exception:
                    outs.append(None)
            good = [o for o, inst in zip(outs, insts) if o is not None and inst is not differs and not any(inst is f for f in differs2)]
            rec.count("additivity_groups")
            for o in good[1:]:
                S = float(np.max(np.abs(good[0]))) if good[0].size else 1.0
                if o.shape != good[0].shape or not np.all(np.abs(o - good[0]) <= 1e-7 * max(S, 1e-300)):
                    mon.v("instances fed the same vectors through different splits give different transforms", check="additivity",
                          op="apply", shape=list(x.shape), axis=axis, splits=[h[0] for h in hist])
                    break
        # wrong feature dimension
        bad = np.zeros((3, F + 1))
        try:
            insts[-1].apply(bad)
        except Exception:
            pass
        try:
            insts[0].accumulate(np.zeros(F + 2))
        except Exception:
            pass
        # no statistics: a tensor is standardised with its own moments
        fresh = P.Standardize(norm_var=norm_var)
        rows = max(2, int(rng.integers(2, 30)))
        x = (rng.standard_normal((rows, F)) * (np.std(data.astype(np.float64), 0) + 0.5) + np.mean(data.astype(np.float64), 0)).astype(rng.choice(["float64", "float32"]))
        x.setflags(write=False)
        if case["idx"] % 2 == 0:
            # first a call that fails: a tensor with a constant coefficient, in a program that turns warnings into errors.  A call
            # that raised has standardised nothing and has left nothing behind
            xc = np.array(x, dtype=np.float64)
            xc[:, int(rng.integers(F))] = 3.0
            xc.setflags(write=False)
            try:
                with monitor.strict_settings():
                    fresh.apply(xc)
            except Exception:
                rec.count("self_standardising_calls_that_raised_before_the_judged_one")
            if bool(fresh.have_stats):
                mon.v("have_stats is true on an instance that never accumulated, after an apply() that raised", check="have_stats", op="apply")
        import warnings as _w

        if case["idx"] % 2 == 1:
            # a tensor with a constant coefficient (zero variance: the documented outcome is a warning and that coefficient centred only),
            # standardised twice by the same object: a transform without statistics has no memory, the two results are the same and finite
            xz = np.array(x, dtype=np.float64)
            xz[:, int(rng.integers(F))] = -2.5
            xz.setflags(write=False)
            outs = []
            for _ in range(3):
                try:
                    with _w.catch_warnings():
                        _w.simplefilter("ignore")
                        outs.append(np.asarray(fresh.apply(xz)))
                except Exception as e:
                    outs.append(e)
            rec.ev()
            rec.count("zero_variance_tensors_standardised_repeatedly")
            if any(isinstance(o, Exception) for o in outs):
                if not all(isinstance(o, Exception) for o in outs):
                    mon.v("repeated apply of one tensor with a constant coefficient: %r" % ([type(o).__name__ for o in outs],), check="repeat", op="apply")
            elif not all(np.array_equal(outs[0], o, equal_nan=True) for o in outs[1:]) or not np.all(np.isfinite(outs[-1])):
                mon.v("repeated apply of one tensor with a constant coefficient gives different / non-finite results", check="repeat", op="apply")
        for dt in ("float64", "float32", "int32"):
            v1 = np.array(x[0], dtype=dt)  # a lone vector (a warning and zeros when norm_var is off; refused when it is on)
            try:
                with _w.catch_warnings():
                    _w.simplefilter("ignore")
                    fresh.apply(v1) if dt != "float32" else fresh.apply(v1, -1, False)
            except ValueError:
                pass
        try:
            fresh.apply(x)
            x3 = np.array(np.moveaxis(x.reshape(rows, 1, F), -1, 0)); x3.setflags(write=False)
            fresh.apply(x3, axis=0)
        except Exception:
            pass
        if bool(fresh.have_stats):
            mon.v("have_stats is true on an instance that never accumulated", check="have_stats", op="apply")
    rec.sample({"idx": case["idx"], "data": [int(N), int(F), str(data.dtype)], "norm_var": norm_var, "splits": [(h[0], h[1][:6]) for h in hist],
                "probes": [(list(x.shape), a, str(x.dtype)) for x, a in probes]})
    if own:
        monitor.report(rec)
        monitor.detach_all()


def plan(tier, seed):
    n = 800 if tier == "quick" else 20000
    nsh = 8 if tier == "quick" else 16
    from ..common import split

    return [{"a": a, "b": b, "seed": seed} for a, b in split(n, nsh)]


def run_shard(spec, rec):
    if "suite" in spec:
        from .. import suite

        return suite.run(__name__.rsplit(".", 1)[-1], spec, rec)
    mon = Mon(rec)
    mon.attach()
    for i in range(spec["a"], spec["b"]):
        run_case({"idx": i, "seed": spec["seed"]}, rec, mon)
    monitor.report(rec)
    monitor.detach_all()


def finish(rec):
    monitor.require(rec, ["Standardize.accumulate", "Standardize.apply"])
    for k in ("apply_with_stats", "apply_self_standardised", "apply_wrong_dim", "accumulate_wrong_dim", "additivity_groups", "reloaded_instances", "apply_after_further_accumulation"):
        if not rec.counters[k]:
            rec.inconc("class %s never observed" % k)


def classify(w):
    return None
