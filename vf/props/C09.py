"""C09 - command-line tools store exactly what the library pipeline computes.

The real entry points (compute_feats_from_kaldi_tables, signals_to_torch_feat_dir) are run
on generated utterance sets; what they *stored* (Kaldi table read back with
pydrobert.kaldi.io / saved tensors) is compared with the pipeline assembled from explicitly
constructed objects: signal as written -> channel pick -> pre-processors in order ->
compute_full (or the raw samples as a column) -> post-processors in order -> float32.
While the tools run, the C02 / C03 / C15 / C18 monitors are attached to the library classes
and call-counting spies record whether each configured stage ran at all.
"""
import copy
import json
import os
import shutil
import tempfile
import wave

import numpy as np

from .. import compmon, gen, monitor
from ..common import rng_for, split
from ..oracle.stft_ref import compare_features

LEVEL = "exploration"
TECHNIQUE = "offline checker over the tools' stored outputs against an explicitly assembled library pipeline; stage-call spies and the C02/C03/C15/C18 monitors attached during the runs"
RULE = (
    "scenarios per tool: 3-8 utterances (mono / channels-first multi-channel with --channel, one too short for a frame, (kaldi) one excluded by --min-duration, one at "
    "another sampling rate, one with too few channels), containers wav / npy / pt / npz / hdf5 keyed by utterance id / sph for the torch tool, STFT / SI / no "
    "computer, pre-processors (pre-emphasis, dither, a harness-registered clipper), post-processors (deltas, stack, standardize with a statistics file), "
    "configuration inline / JSON file / YAML file, fixed --seed; non-trivial = scenario with >= 1 pre- and >= 1 post-processor and >= 2 stored utterances with "
    "frames; distinct by scenario description"
)
ASSUMPTIONS = [
    "float32 precision: linear-domain 1e-4 relative + 1e-6 S for raw log features; after post-processing |a-b| <= 2e-4 max(1, max|expected|)",
    "dither is checked through seed identities (same --seed -> identical, other seed -> different, coeff 0 -> equals no dither) and the order of dither vs "
    "pre-emphasis through the lag-1 autocorrelation of the residual (threshold -0.25, >= 4000 samples), so the oracle does not depend on how noise is drawn",
    "for signals-to-torch-feat-dir an utterance whose channel specification does not match aborts the run (it has no skip logic); such utterances are only given to the kaldi tool",
    "a Kaldi table stores an empty matrix as 0x0, so the column count of an empty entry is only checked for the torch tool",
    "for the torch tool multi-channel signals are stored channels-first in array containers (npy / pt / npz / hdf5); audio containers (wav, sph), which read_signal returns as time x channels, are only used for mono signals",
]
ANCHOR_FILES = ("src/pydrobert/speech/command_line.py", "src/pydrobert/speech/torch.py")
EXHAUSTIVE_PARTS = []
LEVEL_TEXT = (
    "Tens (quick) to hundreds (thorough) of generated scenarios per tool are run through the real command-line entry points and every stored matrix is "
    "compared with the explicitly assembled pipeline, including exclusion rules, stage order, configuration syntaxes and seed determinism. Sampled exploration."
)
LEVEL_NOTE = "Trusts pydrobert.kaldi.io / torch.load for reading the outputs back and the NumPy classes as the reference pipeline (tied to definitions by C02/C03/C15/C16/C18)."


# ---------------------------------------------------------------- scenario generation
def computer_cfg(rng, rate, allow_none):
    r = rng.random()
    if allow_none and r < 0.2:
        return None
    if r < 0.75:
        kind = str(rng.choice(["fbank", "tri", "gabor"]))
        bank = {"name": kind, "num_filts": int(rng.integers(3, 9)), "sampling_rate": rate, "low_hz": 20.0, "high_hz": float(rate // 2 - int(rng.integers(0, 200)))}
        if kind != "fbank":
            bank["scaling_function"] = str(rng.choice(["mel", "bark"]))
        if kind in ("fbank", "tri"):
            bank["analytic"] = bool(rng.random() < 0.3)
        fl_ms = float(rng.choice([25, 20, 12.5]))
        if rng.random() < 0.35:
            fl_ms += 1000.0 / rate + 1e-6  # one more sample: an odd frame length (and an odd DFT size when unpadded)
        return {"name": "stft", "bank": bank, "frame_length_ms": fl_ms, "frame_shift_ms": float(rng.choice([10, 5, 7.5])),
                "frame_style": str(rng.choice(["centered", "causal"])), "include_energy": bool(rng.random() < 0.4), "pad_to_nearest_power_of_two": bool(rng.random() < 0.7),
                "window_function": str(rng.choice(["hanning", "hamming", "blackman"])), "use_log": bool(rng.random() < 0.7), "use_power": bool(rng.random() < 0.5),
                "kaldi_shift": bool(rng.random() < 0.4)}
    # short-integration: narrow low filters give supports of a few hundred samples, so a 2.5-5 ms shift is in the computer's scope
    bank = {"name": "gabor", "scaling_function": "mel", "num_filts": int(rng.integers(8, 13)), "sampling_rate": rate, "low_hz": 60.0, "high_hz": float(rate * 0.45)}
    cfg = {"name": "si", "bank": bank, "frame_shift_ms": float(rng.choice([2.5, 1.25])), "frame_style": str(rng.choice(["centered", "causal"])), "include_energy": bool(rng.random() < 0.4),
           "use_log": bool(rng.random() < 0.7), "use_power": bool(rng.random() < 0.5)}
    from ..oracle import si_ref

    c = gen.build(cfg)
    assert si_ref.in_scope(c.bank.supports, c.frame_shift, c.frame_style), "SI scenario out of the computer's scope"
    return cfg


def make_scenario(seed, idx, tool):
    rng = rng_for(seed, "C09", idx, 0 if tool == "kaldi" else 1)
    rate = int(rng.choice([8000, 16000]))
    comp = computer_cfg(rng, rate, allow_none=(tool == "torch"))
    odd = idx % 6 == 5
    one = idx % 6 == 1  # focus on the utterance with exactly one frame: an STFT pipeline with post-processors, nothing excluded by duration
    long_dither = tool == "kaldi" and idx % 12 == 0 and idx > 0  # every twelfth kaldi scenario: dither, an STFT computer and one very long recording
    while (odd or one or long_dither) and (comp is None or comp["name"] != "stft"):
        comp = computer_cfg(rng, rate, allow_none=False)
    if odd:
        # a complex bank reaching Nyquist with an unpadded, odd DFT size (mirrored-bin walk of the torch port)
        comp["bank"] = {"name": "gabor", "scaling_function": "mel", "num_filts": 5, "sampling_rate": rate, "low_hz": 0.0, "high_hz": float(rate // 2)}
        comp["pad_to_nearest_power_of_two"] = False
        comp["frame_length_ms"] = 20.0 + 1000.0 / rate + 1e-6
    if comp is not None and comp["name"] == "stft":
        # every (frame style, kaldi_shift) combination occurs, in turn (kaldi_shift is a no-op for causal frames)
        comp["frame_style"], comp["kaldi_shift"] = [("centered", False), ("causal", True), ("centered", True), ("causal", False)][idx % 4]
    kind = str(rng.choice(["pipeline", "pipeline", "pipeline", "dither", "order"]))
    if odd or one:
        kind = "pipeline"
    if long_dither:
        kind = "dither"
    pre, post = [], []
    if kind == "pipeline":
        if rng.random() < 0.7:
            pre.append({"name": "preemph", "coeff": float(rng.choice([0.97, 0.9, 0.5]))})
        if tool == "kaldi" and rng.random() < 0.5:
            pre.insert(int(rng.integers(0, len(pre) + 1)), {"name": "vfclip", "limit": float(rng.choice([500.0, 3000.0]))})
        if rng.random() < 0.2:
            pre.append({"name": "dither", "coeff": 0.0})
        if comp is not None:
            for _ in range(int(rng.integers(0, 3)) or int(idx % 2)):  # odd-numbered pipeline scenarios have at least one post-processor
                post.append(copy.deepcopy([{"name": "deltas", "num_deltas": int(rng.integers(1, 3))}, {"name": "stack", "num_vectors": int(rng.integers(2, 4))},
                                           {"name": "standardize", "rfilename": "@STATS@"}][int(rng.integers(3))]))
    elif kind == "dither":
        pre = [{"name": "dither", "coeff": float(rng.choice([1.0, 5.0]))}]
        if rng.random() < 0.5:
            pre.append({"name": "preemph"})
    else:
        comp = None if tool == "torch" else comp
    nutt = int(rng.integers(3, 9))
    multi = bool(rng.random() < 0.4)
    channel = int(rng.integers(0, 3)) if multi else -1
    utts = []
    for u in range(nutt):
        n = int(rng.integers(int(0.05 * rate), int(0.25 * rate)))
        utts.append({"id": ("spk1.utt%d" % u) if (idx % 3 == 2 and u < 2) else "utt%d%s" % (u, str(rng.choice(["", "-a", "_x", ".v2"]))), "n": n, "channels": (channel + 1 + int(rng.integers(0, 2))) if multi else 1, "rate": rate,
                     "container": "wav" if tool == "kaldi" else str(rng.choice(["npy", "pt", "npz", "hdf5"] if multi else ["wav", "npy", "pt", "npz", "hdf5", "sph"]))})
    i_one, i_short = (int(v) for v in rng.permutation(nutt)[:2])  # two different utterances
    if comp is not None and comp["name"] == "stft":
        # an utterance that yields exactly one frame
        fl, fs = int(0.001 * comp["frame_length_ms"] * rate), int(0.001 * comp["frame_shift_ms"] * rate)
        lo, hi = max(fl // 2 + 1, fs - fs // 2), 2 * fs - fs // 2
        if lo < hi:
            utts[i_one]["n"] = int(rng.integers(lo, hi))
    si_focus = comp is not None and comp["name"] == "si"
    if si_focus and tool == "torch":
        post = [p for p in post if p["name"] == "stack"]  # (post-processors that refuse an utterance without frames would forbid the frameless one)
    deltas_in_post = any(p["name"] in ("deltas", "standardize") for p in post)
    if not (tool == "torch" and deltas_in_post):
        utts[i_short]["n"] = int(rng.integers(1, 40))  # too short for a frame
        if comp is not None and comp["name"] == "si":
            # a computer with buffers of its own between chunks: the frameless utterance (fewer samples than half a shift)
            # directly before an ordinary one, both through the same computer object
            if i_short == nutt - 1:
                utts[i_short], utts[i_short - 1] = utts[i_short - 1], utts[i_short]
                i_short -= 1
            utts[i_short]["n"] = 3
            utts[i_short + 1]["n"] = max(utts[i_short + 1]["n"], int(0.05 * rate))
    steady = bool(tool == "kaldi" and comp is not None and kind == "pipeline" and idx % 5 == 3)
    if steady:
        # sustained tones, standardised per utterance (a post-processor without a statistics file): coefficients that barely move are
        # divided by their own small deviation, so the post-processors must get the coefficients as the computer returned them
        pre = [p_ for p_ in pre if p_["name"] != "vfclip"]
        post = [{"name": "standardize"}]
        for u_ in utts:
            u_["n"] = max(u_["n"], int(0.08 * rate))  # (an utterance without frames has no deviation of its own to be standardised with)
    scn = {"tool": tool, "idx": idx, "kind": kind, "rate": rate, "computer": comp, "pre": pre, "post": post, "utts": utts, "channel": channel, "steady": steady,
           "syntax": [str(s) for s in rng.permutation(["inline", "json", "yaml"])[:2]], "seed_opt": 0 if idx % 3 == 0 else int(rng.integers(0, 1000))}
    if tool == "kaldi":
        scn["min_duration"] = 0.0
        r = rng.random()
        if r < 0.3:
            scn["min_duration"] = 0.04
            utts.append({"id": "tooshortdur", "n": int(0.02 * rate), "channels": utts[0]["channels"], "rate": rate, "container": "wav", "excluded": "min_duration"})
        elif r < 0.6:
            # a threshold exactly equal to one utterance's duration: that utterance is NOT shorter, so it is kept
            # (1/16 s is exact in the reader's single-precision duration as well as in the option's double)
            scn["min_duration"] = 0.0625
            utts.append({"id": "exactdur", "n": int(0.0625 * rate), "channels": utts[0]["channels"], "rate": rate, "container": "wav"})
            utts.append({"id": "justbelow", "n": int(0.0625 * rate) - 1, "channels": utts[0]["channels"], "rate": rate, "container": "wav", "excluded": "min_duration"})
        if one or si_focus:
            scn["min_duration"] = 0.0
            scn["utts"] = utts = [u for u in utts if u.get("excluded") != "min_duration"]
        if rng.random() < 0.5:
            utts.insert(int(rng.integers(0, len(utts))), {"id": "otherrate", "n": int(0.1 * rate), "channels": utts[0]["channels"], "rate": 8000 if rate == 16000 else 16000,
                                                          "container": "wav", "excluded": "rate"})
        if multi and channel >= 1 and rng.random() < 0.6:
            utts.insert(int(rng.integers(0, len(utts))), {"id": "fewchannels", "n": int(0.1 * rate), "channels": channel, "rate": rate, "container": "wav", "excluded": "channel"})
    if tool == "torch":
        scn["num_workers"] = int(rng.choice([0, 0, 2]))
        scn["prefix"] = str(rng.choice(["", "f-"]))
        scn["suffix"] = str(rng.choice([".pt", ".feat"]))
        # a second run with --manifest: some utterances are listed as done already.  Ids are not of one width: one listed id
        # contains an unlisted one ("utt1" / "utt10"), and the manifest also names utterances that are no longer in the map
        a, b = (int(v) for v in rng.permutation(len(utts))[:2])
        utts[a]["id"] = utts[b]["id"] + "0"
        listed = [utts[a]["id"]] + [u["id"] for k, u in enumerate(utts) if k not in (a, b) and rng.random() < 0.3]
        scn["manifest_listed"] = listed
        scn["manifest_stale"] = ["gone-" + utts[b]["id"] + "-x", "utt"]
        if multi and not (deltas_in_post):
            # the frameless recording has more channels than samples (channels first, as the tool documents)
            u = utts[i_short]
            u["n"] = min(u["n"], 3)
            u["channels"] = max(u["channels"], u["n"] + 1)
        if comp is not None and comp["name"] == "stft":
            # a recording of exactly (k + 1/2) frame shifts with k even (a tie of the rounding rule for the number of frames)
            fs_ = int(0.001 * comp["frame_shift_ms"] * rate)
            if fs_ % 2 == 0 and b not in (i_one, i_short):
                utts[b]["n"] = (2 * (3 + idx % 4)) * fs_ + fs_ // 2
        if idx % 2 == 1:
            # a file name with a run of blanks and a tab in it: the map's format is "<id> <path>", the path being the rest of the line
            utts[(a + 1) % len(utts)]["spaced"] = True
    if tool == "kaldi" and kind == "dither" and (long_dither or idx % 2 == 0) and comp["name"] == "stft":
        # one recording of more than 2^20 samples (a minute or two of speech) among the dithered ones: as reproducible under --seed as the rest
        k = next(j for j, u in enumerate(utts) if not u.get("excluded") and j not in (i_one, i_short))
        utts[k]["n"] = 2 ** 20 + 3 + idx
    if tool == "kaldi" and idx % 4 == 2 and kind == "pipeline" and comp["name"] == "stft":
        # one long recording (beyond 2 x 16384 samples - any blockwise processing has block boundaries inside it), pre-emphasised
        k = next(j for j, u in enumerate(utts) if not u.get("excluded") and j not in (i_one, i_short))
        utts[k]["n"] = 2 * 16384 + 1500 + 37 * (idx % 7)
        if not any(p["name"] == "preemph" for p in pre):
            pre.insert(0, {"name": "preemph", "coeff": 0.97})
    return scn


def signals_for(scn, seed):
    rng = rng_for(seed, "C09", scn["idx"], 9)
    sig = {}
    for u in scn["utts"]:
        amp = 80 if scn["kind"] == "order" else 8000
        n = 6000 if scn["kind"] == "order" and "excluded" not in u and u["n"] >= 40 else u["n"]
        x = np.clip(np.round(np.cumsum(rng.standard_normal((u["channels"], n)), axis=1) * amp * 0.05 + rng.standard_normal((u["channels"], n)) * amp), -32000, 32000)
        if scn.get("steady") and n >= 200:
            t = np.arange(n) / float(u["rate"])
            f0 = float(rng.choice([250.0, 500.0, 1000.0]))
            x = np.round(np.stack([12000.0 * np.sin(2 * np.pi * f0 * (1 + 0.1 * c) * t) * (1.0 + 0.001 * np.arange(n) / n) for c in range(u["channels"])]))
        sig[u["id"]] = x.astype(np.int16)
    return sig


def write_inputs(scn, sig, d):
    """write signal files and the table / map; returns the path of the scp / map file"""
    lines = []
    for u in scn["utts"]:
        x = sig[u["id"]]
        c = u["container"]
        p = os.path.join(d, ("in  %s \t_.%s" if u.get("spaced") else "in_%s.%s") % (u["id"], {"wav": "wav", "npy": "npy", "pt": "pt", "npz": "npz", "hdf5": "hdf5", "sph": "sph"}[c]))
        mono = x.shape[0] == 1 and scn["channel"] == -1
        if c == "wav":
            w = wave.open(p, "wb")
            w.setnchannels(x.shape[0]); w.setsampwidth(2); w.setframerate(u["rate"])
            w.writeframes(np.ascontiguousarray(x.T).astype("<i2").tobytes())
            w.close()
        elif c == "npy":
            np.save(p, x[0] if mono else x)
        elif c == "pt":
            import torch

            torch.save(torch.from_numpy(x[0] if mono else x), p)
        elif c == "npz":
            np.savez(p, **{u["id"]: (x[0] if mono else x), "other": np.zeros(3)})
        elif c == "hdf5":
            import h5py

            with h5py.File(p, "w") as f:
                f.create_dataset("aaa_decoy", data=np.zeros(4))
                f.create_dataset(u["id"], data=(x[0] if mono else x))
        else:
            from ..oracle import sphere_writer as SW

            open(p, "wb").write(SW.header(x.shape[0], x.shape[1], "pcm", 2, "01", 1024, rate=u["rate"]) + SW.pcm_bytes(x.T, "01"))
        lines.append("%s %s" % (u["id"], p))
    path = os.path.join(d, "wav.scp" if scn["tool"] == "kaldi" else "map.txt")
    if relative_map(scn):
        # the map lives in a directory of its own and names the recordings relative to the working directory (which run_case makes `d`);
        # next to the map lie files of the same names that are other recordings: a relative name means what read_signal makes of it
        import shutil

        os.makedirs(os.path.join(d, "maps"))
        files = [l.split(" ", 1)[1] for l in lines]
        for k, f in enumerate(files):
            other = files[(k + 1) % len(files)]
            twin = os.path.join(d, "maps", os.path.basename(f))
            if len(files) > 1 and os.path.splitext(other)[1] == os.path.splitext(f)[1]:
                shutil.copy(other, twin)
            else:
                open(twin, "wb").write(b"not the recording")
        lines = ["%s %s" % (l.split(" ", 1)[0], os.path.basename(l.split(" ", 1)[1])) for l in lines]
        path = os.path.join(d, "maps", "map.txt")
    text = "\n".join(lines) + "\n"
    if scn["tool"] == "torch":
        # the same map as text files come: without a final newline, with blank lines, with DOS line ends
        v = scn["idx"] % 4
        if v == 1:
            text = "\n".join(lines)
        elif v == 2:
            text = "\n" + "\n\n".join(lines) + "\n\n"
        elif v == 3:
            text = "\r\n".join(lines) + "\r\n"
    open(path, "w", newline="").write(text)
    return path


def relative_map(scn):
    return scn["tool"] == "torch" and scn["idx"] % 6 == 5


def reads_as(scn, u, x):
    """what read_signal returns for this container: audio containers give (time, channels); the tool expects channels first"""
    if u["container"] in ("wav", "sph") and scn["tool"] == "torch":
        return x[0] if x.shape[0] == 1 else x.T  # (S, C): channels are NOT first for these containers
    return x


EXPONENT_NOTATION = {"on": False}


def _json_text(obj):
    """JSON text of a configuration; with EXPONENT_NOTATION on, every float is written as <digits>e<exponent> without a decimal point
    (0.97 -> 97e-2, 25.0 -> 250e-1): the same numbers in a spelling JSON and YAML 1.2 allow"""
    if not EXPONENT_NOTATION["on"]:
        return json.dumps(obj)
    floats = []

    def mark(o):
        if isinstance(o, bool) or o is None:
            return o
        if isinstance(o, float) and o == o and abs(o) != float("inf"):
            r = repr(o)
            if "e" in r or "E" in r or "." not in r:
                return o
            floats.append(r)
            return "@@F%d@@" % (len(floats) - 1)
        if isinstance(o, dict):
            return {k: mark(v) for k, v in o.items()}
        if isinstance(o, (list, tuple)):
            return [mark(v) for v in o]
        return o

    text = json.dumps(mark(obj))
    for k, r in enumerate(floats):
        neg = r.startswith("-")
        ip, fp = r.lstrip("-").split(".")
        digits = (ip + fp).lstrip("0") or "0"
        text = text.replace('"@@F%d@@"' % k, "%s%se-%d" % ("-" if neg else "", digits, len(fp)))
    return text


def config_arg(obj, syntax, d, name):
    if syntax == "inline":
        return _json_text(obj)
    if syntax == "json":
        p = os.path.join(d, name + ".json")
        open(p, "w").write(_json_text(obj))
        return p
    p = os.path.join(d, name + ".yaml")
    from ruamel.yaml import YAML
    import io

    y = YAML(typ="safe")
    buf = io.StringIO()
    y.dump(obj, buf)
    open(p, "w").write(buf.getvalue())
    return p


# ---------------------------------------------------------------- the explicit pipeline (oracle)
_CLIP = []  # keeps the harness class alive (__subclasses__ only holds weak references)


def _clip_class():
    from pydrobert.speech.pre import PreProcessor

    if _CLIP:
        return _CLIP[0]

    class _VFClip(PreProcessor):
        """harness pre-processor: a non-linear stage, so the order of pre-processors is observable exactly"""
        aliases = {"vfclip"}

        def __init__(self, limit=1000.0):
            self.limit = limit

        def apply(self, signal, axis=None, in_place=False):
            return np.clip(signal, -self.limit, self.limit)

    _CLIP.append(_VFClip)
    return _VFClip


def expected_features(scn, x1d, stats_path):
    from pydrobert.speech import pre as PRE, post as POST

    y = np.asarray(x1d, dtype=np.float64)
    for p in scn["pre"]:
        if p["name"] == "preemph":
            y = PRE.Preemphasize(p.get("coeff", 0.97)).apply(y)
        elif p["name"] == "vfclip":
            y = _clip_class()(p["limit"]).apply(y)
        elif p["name"] == "dither":
            if p.get("coeff", 1.0) != 0:
                return None
    if scn["computer"] is None:
        f = y[:, None]
    else:
        with monitor.quiet():
            f = gen.build(scn["computer"]).compute_full(y)
    if len(f) or scn["tool"] == "torch":
        for p in scn["post"]:
            if p["name"] == "deltas":
                f = POST.Deltas(p["num_deltas"]).apply(f)
            elif p["name"] == "stack":
                f = POST.Stack(p["num_vectors"]).apply(f)
            else:
                f = (POST.Standardize(stats_path) if p.get("rfilename") else POST.Standardize()).apply(f)
    return f.astype(np.float32)


def feature_dim(scn):
    if scn["computer"] is None:
        return 1
    with monitor.quiet():
        return gen.build(scn["computer"]).num_coeffs


# ---------------------------------------------------------------- running the tools
def run_kaldi(scn, d, scp, syntax, seed_opt, tag, stats_path):
    from pydrobert.speech import command_line as CL
    from pydrobert.kaldi import io as kio

    _clip_class()
    ark = os.path.join(d, "feats_%s.ark" % tag)
    fill = lambda lst: [dict(p, rfilename=stats_path) if p.get("rfilename") == "@STATS@" else p for p in lst]
    args = ["scp:" + scp, "ark:" + ark, config_arg(scn["computer"], syntax, d, "comp_" + tag)]
    if scn["pre"]:
        args.append("--preprocess=" + config_arg(scn["pre"], syntax, d, "pre_" + tag))
    if scn["post"]:
        args.append("--postprocess=" + config_arg(fill(scn["post"]), syntax, d, "post_" + tag))
    if scn["channel"] != -1:
        args.append("--channel=%d" % scn["channel"])
    if scn.get("min_duration"):
        args.append("--min-duration=%r" % scn["min_duration"])
    if seed_opt is not None:
        args.append("--seed=%d" % seed_opt)
    try:
        rc = CL.compute_feats_from_kaldi_tables(args)
    except BaseException as e:  # noqa
        return {"rc": "raised %r" % (e,), "out": {}}
    out = {}
    if os.path.exists(ark):
        with kio.open("ark:" + ark, "bm") as t:
            for k, v in t.items():
                out[k] = np.array(v)
    return {"rc": rc, "out": out}


def run_torch(scn, d, mp, syntax, seed_opt, tag, stats_path):
    import torch
    from pydrobert.speech import command_line as CL

    outdir = os.path.join(d, "out_" + tag)
    fill = lambda lst: [dict(p, rfilename=stats_path) if p.get("rfilename") == "@STATS@" else p for p in lst]
    args = [mp]
    if scn["computer"] is not None:
        args.append(config_arg(scn["computer"], syntax, d, "comp_" + tag))
    args.append(outdir)
    if scn["pre"]:
        args.append("--preprocess=" + config_arg(scn["pre"], syntax, d, "pre_" + tag))
    if scn["post"]:
        args.append("--postprocess=" + config_arg(fill(scn["post"]), syntax, d, "post_" + tag))
    if scn["channel"] != -1:
        args.append("--channel=%d" % scn["channel"])
    if seed_opt is not None:
        args.append("--seed=%d" % seed_opt)
    if scn.get("prefix"):
        args.append("--file-prefix=" + scn["prefix"])
    if scn.get("suffix", ".pt") != ".pt":
        args.append("--file-suffix=" + scn["suffix"])
    if scn.get("num_workers"):
        args.append("--num-workers=%d" % scn["num_workers"])
    if scn.get("manifest_path"):
        args.append("--manifest=" + scn["manifest_path"])
    try:
        rc = CL.signals_to_torch_feat_dir(args)
    except BaseException as e:  # noqa
        return {"rc": "raised %r" % (e,), "out": {}}
    out = {}
    if os.path.isdir(outdir):
        for fn in os.listdir(outdir):
            pre, suf = scn.get("prefix", ""), scn.get("suffix", ".pt")
            if fn.startswith(pre) and fn.endswith(suf):
                out[fn[len(pre):len(fn) - len(suf)]] = torch.load(os.path.join(outdir, fn)).numpy()
            else:
                out["?" + fn] = None
    return {"rc": rc, "out": out}


SUBPROC = r'''
import json, sys
sys.path.insert(0, sys.argv[1])
from vf.props import C09
import numpy as np
scn = json.load(open(sys.argv[2]))
runner = C09.run_kaldi if scn["tool"] == "kaldi" else C09.run_torch
res = runner(scn, sys.argv[3], sys.argv[4], "inline", int(sys.argv[5]), sys.argv[6], sys.argv[7])
np.savez(sys.argv[8], **{k: v for k, v in res["out"].items() if v is not None})
print("RC", res["rc"])
'''


def run_in_subprocess(scn, d, path, seed_opt, tag, stats_path):
    """run the tool through a fresh interpreter (default, i.e. random, str-hash salt) and return what it stored"""
    import subprocess
    import sys

    sp = os.path.join(d, "scn_%s.json" % tag)
    json.dump(scn, open(sp, "w"))
    outp = os.path.join(d, "sub_%s.npz" % tag)
    env = dict(os.environ)
    env.pop("PYTHONHASHSEED", None)
    verif = os.path.dirname(os.path.dirname(os.path.dirname(os.path.abspath(__file__))))
    try:
        p = subprocess.run([sys.executable, "-c", SUBPROC, verif, sp, d, path, str(seed_opt), tag, stats_path, outp], env=env, capture_output=True, text=True, timeout=600)
    except subprocess.TimeoutExpired:
        return None
    if not os.path.exists(outp) or "RC 0" not in p.stdout and "RC None" not in p.stdout:
        return None
    with np.load(outp) as z:
        return {k: np.array(z[k]) for k in z.files}


class Spy:
    def __init__(self):
        self.calls = {}

    def attach(self):
        from pydrobert.speech import pre as PRE, post as POST, compute as C

        def mk(name):
            def post(c):
                self.calls[name] = self.calls.get(name, 0) + 1
            return post

        for cls in (PRE.Preemphasize, PRE.Dither, POST.Deltas, POST.Stack, POST.Standardize):
            monitor.attach(cls, "apply", post=mk(cls.__name__ + ".apply"), reentrant=False)
        for cls in (C.ShortTimeFourierTransformFrameComputer, C.ShortIntegrationFrameComputer):
            monitor.attach(cls, "compute_full", post=mk(cls.__name__ + ".compute_full"), reentrant=False)


def compare(mon_v, rec, scn, uid, got, want, what):
    if got.shape != want.shape:
        if scn["tool"] == "kaldi" and want.shape[0] == 0 and got.size == 0:
            return
        mon_v("%s: %s stored shape %r, pipeline gives %r" % (what, uid, got.shape, want.shape), check="shape", utt=uid)
        return
    if got.dtype != np.float32:
        mon_v("%s: %s stored as %s, documented float32" % (what, uid, got.dtype), check="dtype", utt=uid)
    if not want.size:
        return
    comp = scn["computer"]
    if comp is not None and not scn["post"] and comp.get("use_log"):
        ok, i, detail = compare_features(got.astype(np.float64), want.astype(np.float64), True, 1e-5, 1e-4, 1e-6)
    else:
        S = max(1.0, float(np.max(np.abs(want))))
        diff = np.abs(got.astype(np.float64) - want.astype(np.float64))
        ok = bool(np.all(diff <= 2e-4 * S))
        i = tuple(int(v) for v in np.unravel_index(int(np.argmax(diff)), diff.shape))
        detail = "got %r want %r" % (got[i].item(), want[i].item())
    if not ok:
        mon_v("%s: %s stored features differ from the library pipeline at %r: %s" % (what, uid, i, detail), check="value", utt=uid)


def run_case(case, rec, mon=None):
    from .C02 import StftMonitor
    from .C03 import SiMonitor
    from . import C15, C18

    own = mon is None
    if own:
        monitor.detach_all()
        mon = {"spy": Spy()}
        compmon.attach()
        StftMonitor(rec).attach()
        SiMonitor(rec).attach()
        C15.Mon(rec).attach()
        C18.Mon(rec).attach()
        mon["spy"].attach()
    scn = case["scn"]
    tool = scn["tool"]

    def v(what, **kw):
        rec.violation(dict(what=what, case=case, tool=tool, kind=scn["kind"], **kw))

    d = tempfile.mkdtemp(prefix="c09_")
    here = os.getcwd()
    try:
        sig = signals_for(scn, case["seed"])
        path = write_inputs(scn, sig, d)
        if scn["idx"] % 4 == 1:
            EXPONENT_NOTATION["on"] = True  # the numbers of the JSON configurations written without a decimal point (97e-2)
            rec.count("scenarios_with_exponent_notation_in_json_configurations")
        if relative_map(scn):
            os.chdir(d)
            rec.count("maps_with_relative_names_and_same_named_files_beside_the_map")
        F = feature_dim(scn)
        stats_path = os.path.join(d, "stats.npy")
        if any(p.get("rfilename") for p in scn["post"]):
            from pydrobert.speech.post import Standardize

            with monitor.quiet():
                fdim = F
                for p in scn["post"]:
                    if p["name"] == "standardize":
                        break
                    fdim = fdim * (p["num_deltas"] + 1) if p["name"] == "deltas" else fdim * p["num_vectors"]
                st = Standardize()
                st.accumulate(rng_for(case["seed"], "C09", scn["idx"], 77).standard_normal((200, fdim)) * 3 - 5)
                st.save(stats_path)
        runner = run_kaldi if tool == "kaldi" else run_torch
        mon["spy"].calls.clear()
        # ---- expected key set and features
        expected = {}
        for u in scn["utts"]:
            if u.get("excluded"):
                continue
            if tool == "kaldi" and sig[u["id"]].shape[1] / u["rate"] < scn.get("min_duration", 0.0):
                rec.count("exclusions_min_duration")
                continue
            x = sig[u["id"]]
            chan = 0 if (scn["channel"] == -1) else scn["channel"]
            x1 = x[chan]
            expected[u["id"]] = x1
        # the library pipeline itself must be defined for every utterance (e.g. Stack may leave no frame for a
        # following Standardize, which refuses empty input): otherwise there is nothing to compare with
        try:
            for uid, x1 in expected.items():
                expected_features(scn, x1, stats_path)
        except Exception as e:
            rec.count("scenarios_skipped_pipeline_undefined")
            rec.note("scenario %d skipped: the library pipeline raises %r" % (scn["idx"], e))
            return
        rec.ev()
        rec.count("scenarios_" + tool)
        rec.count("scenario_kind_" + scn["kind"])
        res = runner(scn, d, path, scn["syntax"][0], scn["seed_opt"], "a", stats_path)
        if res["rc"] not in (0, None):
            v("%s tool returned %r for scenario %d" % (tool, res["rc"], scn["idx"]), check="exit_code")
        else:
            got_keys, want_keys = set(res["out"]), set(expected)
            if got_keys != want_keys:
                v("stored utterances %s; expected %s (missing %s, unexpected %s)" % (sorted(got_keys), sorted(want_keys), sorted(want_keys - got_keys), sorted(got_keys - want_keys)),
                  check="key_set")
            nframes = 0
            dither_on = any(p["name"] == "dither" and p.get("coeff", 1.0) != 0 for p in scn["pre"])
            for uid in sorted(got_keys & want_keys):
                rec.count("stored_utterances_compared")
                got = res["out"][uid]
                if dither_on:
                    continue
                want = expected_features(scn, expected[uid], stats_path)
                compare(v, rec, scn, uid, got, want, "%s tool" % tool)
                nframes += int(len(want) > 0)
                if len(want) == 0:
                    rec.count("utterances_too_short_for_a_frame")
            for k in ("min_duration", "rate", "channel"):
                if any(u.get("excluded") == k for u in scn["utts"]):
                    rec.count("exclusions_" + k)
            # ---- same configuration in another syntax gives the same features
            res2 = runner(scn, d, path, scn["syntax"][1], scn["seed_opt"], "b", stats_path)
            rec.count("syntax_pairs_%s_%s" % tuple(sorted(scn["syntax"])))
            if set(res2["out"]) != set(res["out"]) or any(not np.array_equal(res["out"][k], res2["out"][k]) for k in res["out"] if res["out"][k] is not None):
                v("configuration given as %s and as %s gives different output (fixed --seed)" % (scn["syntax"][0], scn["syntax"][1]), check="syntax")
            if tool == "torch" and scn.get("manifest_listed"):
                # ---- the same command with a manifest that lists some utterances as done: exactly the others are stored, as before
                mpath = os.path.join(d, "manifest.txt")
                listed = [i for i in scn["manifest_listed"] if i in expected]
                open(mpath, "w").write("".join(i + "\n" for i in scn["manifest_stale"][:1] + listed + scn["manifest_stale"][1:]))
                resm = runner(dict(scn, manifest_path=mpath), d, path, scn["syntax"][0], scn["seed_opt"], "m", stats_path)
                rec.count("runs_with_a_manifest_listing_some_utterances")
                want_m = set(expected) - set(listed)
                if resm["rc"] not in (0, None):
                    v("torch tool with --manifest returned %r for scenario %d" % (resm["rc"], scn["idx"]), check="exit_code")
                elif set(resm["out"]) != want_m:
                    v("with a manifest listing %s the tool stored %s; expected %s (missing %s, unexpected %s)" % (listed, sorted(resm["out"]), sorted(want_m),
                      sorted(want_m - set(resm["out"])), sorted(set(resm["out"]) - want_m)), check="key_set_manifest")
                elif any(not np.array_equal(resm["out"][k], res["out"][k]) for k in want_m if res["out"].get(k) is not None):
                    v("an utterance computed in a run with a manifest differs from the same utterance of the run without (fixed --seed)", check="manifest_value")
            if tool == "torch" and scn["computer"] is not None and scn["idx"] % 3 == 1:
                # ---- two runs in one process that name the *same* configuration file, edited in between: each run uses the file as it is
                alt = copy.deepcopy(scn["computer"])
                alt["include_energy"] = not alt.get("include_energy", False)
                alt["use_power"] = not alt.get("use_power", False)
                for which, c2 in (("first", alt), ("second", scn["computer"])):
                    s2 = dict(scn, computer=c2)
                    shutil.rmtree(os.path.join(d, "out_shared"), ignore_errors=True)
                    r2 = runner(s2, d, path, "json" if scn["idx"] % 2 else "yaml", scn["seed_opt"], "shared", stats_path)
                rec.count("runs_naming_one_configuration_file_edited_in_between")
                if r2["rc"] not in (0, None):
                    v("torch tool returned %r on the second use of an edited configuration file" % (r2["rc"],), check="exit_code")
                elif set(r2["out"]) != set(res["out"]) or any(r2["out"][k] is None or res["out"][k] is None or r2["out"][k].shape != res["out"][k].shape
                                                              or (not dither_on and not np.array_equal(r2["out"][k], res["out"][k])) for k in res["out"]):
                    v("a run naming a configuration file that was edited since an earlier run in the same process does not use the file as it is now", check="config_file_reread")
            if scn["kind"] == "dither":
                # two separate interpreter processes, as two invocations of the console script would be
                outs = []
                for tag in ("p1", "p2"):
                    r = run_in_subprocess(scn, d, path, scn["seed_opt"], tag, stats_path)
                    outs.append(r)
                rec.count("cross_process_seed_pairs")
                if outs[0] is None or outs[1] is None:
                    v("running the %s tool in a separate process failed" % tool, check="subprocess")
                elif set(outs[0]) != set(outs[1]) or any(not np.array_equal(outs[0][k], outs[1][k]) for k in outs[0]):
                    v("two separate invocations with the same --seed give different output", check="seed_across_processes")
                elif any(not np.array_equal(outs[0][k], res["out"][k]) for k in outs[0] if res["out"].get(k) is not None):
                    v("a separate invocation gives different output than the in-process run with the same --seed", check="seed_across_processes")
                other = runner(scn, d, path, scn["syntax"][0], scn["seed_opt"] + 1, "c", stats_path)
                same = all(np.array_equal(res["out"][k], other["out"].get(k)) for k in res["out"] if res["out"][k] is not None and res["out"][k].size)
                rec.count("dither_seed_checks")
                if same and any(o is not None and o.size for o in res["out"].values()):
                    v("different --seed values give identical dithered output", check="seed_effect")
                if tool == "torch":
                    # the position-based seeding: the same utterance alone in the map keeps... (checked by C10)
                    pass
            if scn["kind"] == "order" and tool == "torch":
                c = 0.97
                for order, name in (([{"name": "preemph", "coeff": c}, {"name": "dither", "coeff": 3.0}], "preemph_then_dither"),
                                    ([{"name": "dither", "coeff": 3.0}, {"name": "preemph", "coeff": c}], "dither_then_preemph")):
                    s2 = dict(scn, pre=order, post=[], computer=None)
                    r = run_torch(s2, d, path, "inline", 5, name, stats_path)
                    for uid, x1 in expected.items():
                        if uid not in r["out"] or r["out"][uid] is None or len(x1) < 4000:
                            continue
                        from pydrobert.speech.pre import Preemphasize

                        resid = r["out"][uid][:, 0].astype(np.float64) - Preemphasize(c).apply(x1.astype(np.float64))
                        resid = resid - resid.mean()
                        rho = float(np.dot(resid[1:], resid[:-1]) / np.dot(resid, resid))
                        rec.count("order_autocorrelation_checks")
                        white = rho > -0.25
                        if white != (name == "preemph_then_dither"):
                            v("pre-processors [%s]: residual lag-1 autocorrelation %.3f says the stages ran in the other order" % (name, rho), check="pre_order", utt=uid)
            if scn["kind"] == "pipeline" and scn["pre"] and scn["post"] and nframes >= 2:
                rec.nt(json.dumps(scn, sort_keys=True))
            elif scn["kind"] != "pipeline":
                rec.nt(json.dumps(scn, sort_keys=True))
        for k, n in mon["spy"].calls.items():
            rec.count("stage_calls:" + k, n)
        rec.sample({"tool": tool, "kind": scn["kind"], "computer": scn["computer"] and scn["computer"]["name"], "pre": scn["pre"], "post": scn["post"],
                    "utts": [(u["id"], u["n"], u["channels"], u["container"], u.get("excluded")) for u in scn["utts"]], "channel": scn["channel"], "syntax": scn["syntax"]})
    finally:
        EXPONENT_NOTATION["on"] = False
        os.chdir(here)
        shutil.rmtree(d, ignore_errors=True)
    if own:
        monitor.report(rec)
        monitor.detach_all()


def plan(tier, seed):
    n = 24 if tier == "quick" else 240
    cases = []
    for tool in ("kaldi", "torch"):
        for i in range(n):
            cases.append({"scn": make_scenario(seed, i, tool), "seed": seed})
    nsh = 16
    return [{"cases": cases[i::nsh]} for i in range(nsh) if cases[i::nsh]]


def run_shard(spec, rec):
    from .C02 import StftMonitor
    from .C03 import SiMonitor
    from . import C15, C18

    mon = {"spy": Spy()}
    compmon.attach()
    StftMonitor(rec).attach()
    SiMonitor(rec).attach()
    C15.Mon(rec).attach()
    C18.Mon(rec).attach()
    mon["spy"].attach()
    for case in spec["cases"]:
        run_case(case, rec, mon)
    monitor.report(rec)
    monitor.detach_all()


def finish(rec):
    for k in ("scenarios_kaldi", "scenarios_torch", "stored_utterances_compared", "utterances_too_short_for_a_frame", "scenario_kind_pipeline", "cross_process_seed_pairs"):
        if not rec.counters[k]:
            rec.inconc("class %s never observed" % k)


def classify(w):
    return None
