"""C15 - Deltas and Stack produce the documented layout and values.

Monitors: post-hooks on Deltas.apply and Stack.apply.  Oracles: the Kaldi delta-scales
recursion + explicit shifted sums on a moved axis; an explicit double loop
out[t, i*F + f] = in[t*n + i, f] for Stack.  Write sanitizer: inputs are read-only and
digested before/after; results must not alias the input unless in_place.
"""
import numpy as np

from .. import sanit, monitor
from ..common import rng_for, close

OPTIMIZED_SHARDS = 1  # shards run once more in an interpreter started with -O (vf/run.py)
LEVEL = "exploration"
TECHNIQUE = "runtime monitors on Deltas.apply / Stack.apply with explicit-loop reference models (Kaldi delta recursion, stacking loops) and a read-only/digest write sanitizer; ambient-settings monitor (stateless calls repeated under -W error and np.errstate raise)"
RULE = (
    "cases: seeded N-D shapes (1-4 dims, sizes from {0,1,2,3,5,8,13} with 0 only on non-filtered axes), every axis / target_axis / time_axis "
    "value incl. negative, num_deltas 0-4, context windows 1-5, pad modes edge/constant/reflect/symmetric/wrap (+ linear_ramp, mean/median/maximum/minimum, a callable for Deltas), num_vectors 1-6 incl. > frames, "
    "float32/float64/int32, in_place, 2-D fast path vs the same data as 3-D; every fifth object applied through a copy (deepcopy / pickle / copy), higher-order Deltas siblings with the same window built first; non-trivial = (Deltas) num_deltas >= 1 and >= 2 frames, "
    "(Stack) num_vectors >= 2 and >= 1 output frame; distinct by (op, shape, dtype, parameters)"
)
ASSUMPTIONS = [
    "np.pad defines what each padding mode means (the oracle pads with np.pad and then applies explicit shifted sums)",
    "tolerance: float64 1e-9, float32 1e-4 relative to the largest input magnitude; integer dtypes +-1 (truncating cast)",
    "handing out a writable view of the input when in_place is False counts as a way of modifying it",
]
ANCHOR_FILES = ("src/pydrobert/speech/post.py",)
EXHAUSTIVE_PARTS = []
SUITE_TESTS = ['tests/test_post.py', 'tests/test_command_line.py']  # the repository's own tests as an extra monitored workload (thorough tier)
LEVEL_TEXT = (
    "Every Deltas.apply / Stack.apply call made by a seeded generator of N-D shapes, axes and modes is compared element-wise with an "
    "independent loop-level reference; thousands (quick) to ~1e5 (thorough) distinct parameter tuples. Sampled exploration of a combinatorial space."
)
LEVEL_NOTE = "Trusts np.pad for the meaning of padding modes and np.moveaxis for axis bookkeeping in the oracle."

PAD_MODES = ["edge", "constant", "reflect", "symmetric", "wrap"]
# modes whose padded values depend on how far the edge is extended
MORE_PAD_MODES = ["linear_ramp", "mean", "median", "maximum", "minimum", "callable"]


def _ramp_pad(vector, pad_width, iaxis, kwargs):
    """callable np.pad mode: fades linearly to zero over the padded width"""
    l, r = pad_width
    if l:
        vector[:l] = vector[l] * np.arange(l) / l
    if r:
        vector[-r:] = vector[-r - 1] * np.arange(r, 0, -1) / (r + 1)


def _pad_with(vector, pad_width, iaxis, kwargs):
    """the callable of numpy.pad's own documentation example: writes a constant into the padded ends.  It is meant for
    axes that are really padded (with a zero width `vector[-0:]` is the whole vector)"""
    pad_value = kwargs.get("padder", 10)
    vector[:pad_width[0]] = pad_value
    vector[-pad_width[1]:] = pad_value


def kaldi_scales(order, window):
    scales = [np.array([1.0])]
    for i in range(1, order + 1):
        prev = scales[i - 1]
        prev_off = (len(prev) - 1) // 2
        cur_off = prev_off + window
        cur = np.zeros(len(prev) + 2 * window)
        norm = 0.0
        for j in range(-window, window + 1):
            norm += j * j
            for k in range(-prev_off, prev_off + 1):
                cur[j + k + cur_off] += j * prev[k + prev_off]
        scales.append(cur / norm)
    return scales


def deltas_ref(x, num_deltas, window, axis, target_axis, concatenate, pad_mode, pad_kwargs):
    nd = x.ndim
    xm = np.moveaxis(x.astype(np.float64), axis, -1)
    T = xm.shape[-1]
    scales = kaldi_scales(num_deltas, window)
    outs = [x]
    outs64 = [x.astype(np.float64)]
    for d in range(1, num_deltas + 1):
        M = d * window
        if callable(pad_mode):
            # (the documented operation extends each vector along the filtered axis: a callable sees 1-D vectors with non-zero widths)
            xp = np.apply_along_axis(lambda v: np.pad(v, (M, M), pad_mode, **pad_kwargs), -1, xm) if xm.size else np.pad(xm, [(0, 0)] * (nd - 1) + [(M, M)], "constant")
        else:
            xp = np.pad(xm, [(0, 0)] * (nd - 1) + [(M, M)], pad_mode, **pad_kwargs)
        y = np.zeros_like(xm)
        for j in range(-M, M + 1):
            y = y + scales[d][j + M] * xp[..., M + j: M + j + T]
        with np.errstate(all="ignore"):
            outs.append(np.moveaxis(y, -1, axis).astype(x.dtype))
        outs64.append(np.moveaxis(y, -1, axis))
    # (the same assembly before the final cast: tells where an integer result sits on a rounding boundary)
    deltas_ref.last64 = np.concatenate(outs64, target_axis) if concatenate else np.stack(outs64, target_axis)
    if concatenate:
        return np.concatenate(outs, target_axis)
    return np.stack(outs, target_axis)


def stack_ref(x, n, time_axis, axis, pad_mode, pad_kwargs):
    xm = np.moveaxis(x, (time_axis, axis), (0, 1))
    T, F = xm.shape[0], xm.shape[1]
    if pad_mode is not None and T % n:
        xm = np.pad(xm, [(0, n - T % n)] + [(0, 0)] * (xm.ndim - 1), pad_mode, **pad_kwargs)
        T = xm.shape[0]
    nT = T // n
    out = np.empty((nT, F * n) + xm.shape[2:], dtype=x.dtype)
    for t in range(nT):
        for i in range(n):
            out[t, i * F:(i + 1) * F] = xm[t * n + i]
    return np.moveaxis(out, (0, 1), (time_axis, axis))


def _tol(dtype):
    if dtype == np.float16:
        return 2e-3
    if dtype == np.float64:
        return 1e-9
    if dtype == np.float32:
        return 1e-4
    return None


class Mon:
    def __init__(self, rec):
        from ..history import ResultHistory

        self.rec = rec
        self.case = None
        self.hist = ResultHistory(rec, self.v)

    def attach(self):
        from pydrobert.speech import post as P

        monitor.capture_init(P.Deltas)
        monitor.capture_init(P.Stack)
        monitor.attach(P.Deltas, "apply", pre=self.pre, post=self.post_deltas, ambient=self.v, ambient_ok=monitor.not_in_place)
        monitor.attach(P.Stack, "apply", pre=self.pre, post=self.post_stack, ambient=self.v, ambient_ok=monitor.not_in_place)

    @staticmethod
    def deltas_cfg(d):
        """(num_deltas, window, target_axis, concatenate, pad_mode, pad_kwargs) from the constructor arguments;
        private attributes are only a fall-back for instances built before the monitor was attached"""
        a = monitor.ctor_args(d)
        if a is not None:
            return int(d.num_deltas), int(a["context_window"]), a["target_axis"], bool(d.concatenate), a["pad_mode"], dict(a.get("kwargs") or {})
        nd = int(d.num_deltas)
        return nd, ((len(d._filts[1]) - 1) // 2 if nd >= 1 else 1), d._target_axis, bool(d.concatenate), d._pad_mode, dict(d._pad_kwargs)

    @staticmethod
    def stack_cfg(s):
        a = monitor.ctor_args(s)
        if a is not None:
            return a["pad_mode"], dict(a.get("kwargs") or {})
        return s._pad_mode, dict(s._pad_kwargs)

    def v(self, what, **kw):
        self.rec.violation(dict(what=what, case=self.case, **kw))

    def pre(self, c):
        kw = {"axis": -1, "in_place": False}
        kw.update(dict(zip(("features", "axis", "in_place"), c.args)))
        kw.update(c.kwargs)
        return {"copy": np.array(kw["features"], copy=True), "kw": kw}

    def _cmp(self, out, ref, before, info, op, ref64=None):
        if out.shape != ref.shape:
            self.v("%s result shape %r, documented layout has %r" % (op, out.shape, ref.shape), check="shape", **info)
            return
        if out.dtype != before.dtype:
            self.v("%s result dtype %s for input %s" % (op, out.dtype, before.dtype), check="dtype", **info)
            return
        if out.size == 0:
            return
        tol = _tol(before.dtype)
        if tol is None:
            d = np.abs(out.astype(np.int64) - ref.astype(np.int64))
            if ref64 is not None and ref64.shape == d.shape:
                # computed in float64 and cast once at the end: the integer can only differ (by one) where the float value
                # sits within rounding of a whole number
                near = np.abs(ref64 - np.round(ref64)) <= 1e-9 * np.maximum(1.0, np.abs(ref64))
                ok = bool(np.all((d == 0) | ((d <= 1) & near)))
                d = np.where(near, np.maximum(d - 1, 0), d)
            else:
                ok = bool(np.all(d <= 1))
            i = np.unravel_index(int(np.argmax(d)), d.shape)
        else:
            S = float(np.max(np.abs(before))) if before.size else 1.0
            ok, i, exc = close(out, ref, tol, tol * max(S, 1e-30))
        if not ok:
            self.v("%s value at %r is %r, reference %r" % (op, i, out[i].item(), ref[i].item()), check="value", **info)

    def post_deltas(self, c):
        st = c.state
        if st is None:
            return
        kw, before = st["kw"], st["copy"]
        d = c.self
        axis = kw["axis"]
        if before.ndim == 0 or before.shape[axis % before.ndim] == 0:
            self.rec.count("deltas_out_of_scope")
            return
        nd, window, target_axis, concatenate, pad_mode, pad_kwargs = self.deltas_cfg(d)
        info = dict(op="deltas", shape=list(before.shape), dtype=str(before.dtype), axis=axis, target_axis=target_axis, concatenate=concatenate,
                    num_deltas=nd, window=window, pad_mode=str(pad_mode), in_place=bool(kw["in_place"]))
        self.rec.ev()
        self.rec.count("deltas_calls")
        try:
            ref = deltas_ref(before, nd, window, axis, target_axis, concatenate, pad_mode, pad_kwargs)
        except Exception as e:
            self.rec.count("deltas_reference_undefined")
            return
        if c.exc is not None:
            self.v("Deltas.apply raised %r where the documented result is defined" % (c.exc,), check="raise", **info)
            return
        out = np.asarray(c.result)
        wide = before.dtype in (np.dtype("int64"), np.dtype("uint64"), np.dtype("longdouble"))
        if wide:
            # element types wider than the float64 the filters work in: "the input followed by ..." - the first block is the input itself,
            # bit for bit; the filtered copies are judged relative to the largest input value
            self.rec.count("deltas_on_element_types_wider_than_float64")
            if out.shape != ref.shape or out.dtype != before.dtype:
                self._cmp(out, ref, before, info, "Deltas")
            elif out.size:
                ta = target_axis % out.ndim
                T0 = before.shape[ta] if concatenate else 1
                first = np.take(out, np.arange(T0), axis=ta)
                first = first if concatenate else np.squeeze(first, ta)
                if not np.array_equal(first, before):
                    i = tuple(np.argwhere(first != before)[0])
                    self.v("Deltas result does not start with the input: entry %r is %r, the input has %r" % (i, first[i].item(), before[i].item()), check="value_input_block", **info)
                S = float(np.max(np.abs(before.astype(np.float64)))) if before.size else 1.0
                # (a regression coefficient of unsigned data may be negative: what the cast to an unsigned type makes of it is not defined,
                # so the filtered copies of uint64 tensors are not judged)
                if before.dtype != np.dtype("uint64") and not np.all(np.abs(out.astype(np.float64) - ref.astype(np.float64)) <= 1e-9 * S + 1.0):
                    self.v("Deltas value differs from the reference by more than 1e-9 of the largest input", check="value", **info)
        else:
            self._cmp(out, ref, before, info, "Deltas", getattr(deltas_ref, "last64", None))
        if not kw["in_place"]:
            if not np.array_equal(np.asarray(kw["features"]), before):
                self.v("Deltas.apply modified its input", check="input_modified", **info)
            if out.size and np.shares_memory(out, kw["features"]):
                self.v("Deltas.apply result aliases its input (in_place=False)", check="aliasing", **info)
        self.hist.observe(d, c.result, "Deltas.apply", overwritten=[kw["features"]] if kw["in_place"] else [], **info)
        if nd >= 1 and before.shape[axis % before.ndim] >= 2 and before.size:
            self.rec.nt(("deltas", tuple(before.shape), str(before.dtype), axis, target_axis, concatenate, nd, window, str(pad_mode)))
        self.rec.count("deltas_ndim_%d" % before.ndim)

    def post_stack(self, c):
        st = c.state
        if st is None:
            return
        kw, before = st["kw"], st["copy"]
        s = c.self
        if before.ndim < 2:
            self.rec.count("stack_out_of_scope")
            return
        axis = kw["axis"] % before.ndim
        time_axis = s.time_axis % before.ndim
        if axis == time_axis:
            self.rec.count("stack_out_of_scope")
            return
        n = int(s.num_vectors)
        pad_mode, pad_kwargs = self.stack_cfg(s)
        info = dict(op="stack", shape=list(before.shape), dtype=str(before.dtype), axis=kw["axis"], time_axis=s.time_axis, num_vectors=n,
                    pad_mode=str(pad_mode), in_place=bool(kw["in_place"]))
        self.rec.ev()
        self.rec.count("stack_calls")
        try:
            ref = stack_ref(before, n, time_axis, axis, pad_mode, pad_kwargs)
        except Exception:
            self.rec.count("stack_reference_undefined")
            return
        if c.exc is not None:
            self.v("Stack.apply raised %r where the documented result is defined" % (c.exc,), check="raise", **info)
            return
        out = np.asarray(c.result)
        if out.shape != ref.shape:
            self.v("Stack result shape %r, documented layout has %r" % (out.shape, ref.shape), check="shape", **info)
        elif out.dtype != before.dtype:
            self.v("Stack result dtype %s for input %s" % (out.dtype, before.dtype), check="dtype", **info)
        elif not np.array_equal(out, ref):
            bad = np.argwhere(out != ref)[0]
            self.v("Stack value at %r is %r, reference %r" % (tuple(bad), out[tuple(bad)].item(), ref[tuple(bad)].item()), check="value", **info)
        if not kw["in_place"]:
            if not np.array_equal(np.asarray(kw["features"]), before):
                self.v("Stack.apply modified its input", check="input_modified", **info)
            if out.size and np.shares_memory(out, kw["features"]):
                self.v("Stack.apply result aliases its input (in_place=False)", check="aliasing", **info)
        self.hist.observe(s, c.result, "Stack.apply", overwritten=[kw["features"]] if kw["in_place"] else [], **info)
        if n >= 2 and ref.size:
            self.rec.nt(("stack", tuple(before.shape), str(before.dtype), kw["axis"], s.time_axis, n, str(pad_mode)))
        self.rec.count("stack_ndim_%d" % before.ndim)
        if before.shape[time_axis] < n:
            self.rec.count("stack_fewer_frames_than_num_vectors")


def _data(rng, shape, dtype):
    from ..common import relayout

    if dtype in ("int32", "int16"):
        return relayout(rng, rng.integers(-1000, 1000, shape).astype(dtype))
    if dtype in ("int64", "uint64"):
        # time stamps in nanoseconds, sample counters, hashes: integers beyond 2^53
        base = int(rng.choice([2 ** 53 + 1, 1_700_000_000_123_456_789, 2 ** 62 + 12345, 2 ** 40 + 3]))
        return relayout(rng, (rng.integers(0, 1000, shape).astype(np.int64) * 7 + base).astype(dtype))
    if dtype == "longdouble":
        x = rng.standard_normal(shape).astype(np.longdouble)
        return relayout(rng, x + x * np.finfo(np.longdouble).eps * 3)
    return relayout(rng, (rng.standard_normal(shape) * float(rng.choice([1e-3, 1, 50]))).astype(dtype))


def run_case(case, rec, mon=None):
    own = mon is None
    if own:
        monitor.detach_all()
        mon = Mon(rec)
        mon.attach()
    mon.case = case
    from pydrobert.speech import post as P

    rng = rng_for(case["seed"], "C15", case["idx"])
    kind = case["kind"]
    last = None
    from ..common import copied, COPY_WAYS

    alive = []
    for j in range(case["n"]):
        ndim = int(rng.choice([1, 2, 2, 3, 3, 4])) if kind == "deltas" else int(rng.choice([2, 2, 3, 3, 4]))
        shape = [int(rng.choice([1, 2, 3, 5, 8, 13])) for _ in range(ndim)]
        dtype = str(rng.choice(["float64", "float64", "float32", "int32", "int32", "float16", "int16"]))
        if kind == "deltas":
            axis = int(rng.integers(-ndim, ndim))
            if j % 40 == 17:
                # an utterance of many frames: the filtered axis passes 2^10 / 2^12 / 2^15 / 2^16 entries
                shape = [min(v, 3) for v in shape]
                shape[axis % ndim] = int(rng.choice([1023, 4097, 32769, 65537, 65536 + 4096 + 1]))
                rec.count("deltas_over_a_long_axis")
            if rng.random() < 0.1 and ndim > 1:
                z = int(rng.integers(ndim))
                if z != axis % ndim:
                    shape[z] = 0
            concatenate = bool(rng.random() < 0.6)
            target_axis = int(rng.integers(-ndim, ndim)) if concatenate else int(rng.integers(-ndim - 1, ndim + 1))
            nd = int(rng.integers(0, 5))
            W = int(rng.integers(1, 6))
            mode = str(rng.choice(PAD_MODES + MORE_PAD_MODES))
            kwargs = {"constant_values": float(rng.integers(-3, 4))} if mode == "constant" and rng.random() < 0.5 else {}
            if mode == "linear_ramp" and rng.random() < 0.5:
                kwargs = {"end_values": float(rng.integers(-3, 4))}
            if mode in ("mean", "median", "maximum", "minimum") and rng.random() < 0.5:
                kwargs = {"stat_length": int(rng.integers(1, 4))}
            if mode == "callable":
                mode = _ramp_pad if rng.random() < 0.5 else _pad_with
                if mode is _pad_with and rng.random() < 0.5:
                    kwargs = {"padder": float(rng.integers(-3, 4))}
            if j % 6 == 3:
                # the integer options as NumPy integers of narrow types (read from an array of settings, say): the same numbers
                W = [np.int8, np.uint8, np.int16, np.uint16][(j // 6) % 4](W)
                nd = [np.uint8, np.int8, np.int32][(j // 6) % 3](nd)
                rec.count("deltas_built_with_narrow_numpy_integer_options")
            if j % 20 == 11:
                dtype = ["int64", "uint64", "longdouble"][(j // 20) % 3]
            x = _data(rng, shape, dtype)
            x.setflags(write=False)
            if rng.random() < 0.1:
                # `concatenate` is a documented public attribute: apply must follow a later assignment
                d = P.Deltas(nd, target_axis=target_axis, concatenate=not concatenate, context_window=W, pad_mode=mode, **kwargs)
                d.concatenate = concatenate
                rec.count("attributes_reassigned_after_construction")
            else:
                d = P.Deltas(nd, target_axis=target_axis, concatenate=concatenate, context_window=W, pad_mode=mode, **kwargs)
            if j % 7 == 0:
                from ..common import poke

                poke(d)  # attributes read, repr(), ==, hash() before the call: not a use
                rec.count("objects_inspected_before_apply")
            if j % 4 == 1:
                # other Deltas objects alive in the same program: same window, higher orders, built after this one
                alive.append(P.Deltas(nd + 1 + j % 2, context_window=W))
                alive.append(P.Deltas(nd + 2, target_axis=0, context_window=W, pad_mode="constant"))
                del alive[:-6]
                rec.count("deltas_applied_after_higher_order_siblings_were_built")
            if j % 5 == 2:
                # the object as a worker process gets it: a deep copy, a pickle round trip, a shallow copy
                way = COPY_WAYS[(j // 5) % 3]
                try:
                    d = monitor.adopt(copied(d, way), d)
                    rec.count("deltas_applied_through_a_%s" % way)
                except Exception as e:
                    if callable(mode) and way == "pickle" and getattr(mode, "__module__", "") != "numpy":
                        rec.count("copies_not_possible_harness_callable")
                    else:
                        mon.v("copying (%s) a Deltas object raised %r" % (way, e), check="copy_raise", op="deltas", pad_mode=str(mode))
            try:
                if rng.random() < 0.5:
                    d.apply(x, axis)
                else:
                    d.apply(x, axis=axis, in_place=False)
            except Exception:
                pass
            if rng.random() < 0.5:
                # the same object again: same shape, the element types in turn (a stateless transform has no memory)
                rec.count("deltas_objects_called_repeatedly")
                for dt2 in [str(t) for t in rng.permutation(["float64", "float32", "int32", "float16", dtype])][:3]:
                    x2 = _data(rng, shape, dt2)
                    x2.setflags(write=False)
                    try:
                        d.apply(x2, axis)
                    except Exception:
                        pass
            last = {"shape": shape, "dtype": dtype, "axis": axis, "target_axis": target_axis, "concatenate": concatenate, "num_deltas": nd, "window": W, "pad_mode": str(mode)}
        else:
            time_axis = int(rng.integers(-ndim, ndim))
            axis = int(rng.integers(-ndim, ndim))
            if axis % ndim == time_axis % ndim:
                axis = (time_axis + 1) % ndim
            if j % 40 == 17:
                shape = [min(v, 3) for v in shape]
                shape[time_axis % ndim] = int(rng.choice([1023, 4097, 32769, 65537, 65536 + 4096 + 1]))
                rec.count("stack_over_a_long_time_axis")
            if rng.random() < 0.1:
                z = int(rng.integers(ndim))
                if z != time_axis % ndim or rng.random() < 0.5:
                    shape[z] = 0
            n = int(rng.integers(1, 7))
            mode = None if rng.random() < 0.5 else str(rng.choice(PAD_MODES))
            if mode not in (None, "constant") and shape[time_axis % ndim] == 0:
                mode = "constant"
            kwargs = {"constant_values": float(rng.integers(-3, 4))} if mode == "constant" and rng.random() < 0.5 else {}
            x = _data(rng, shape, dtype)
            in_place = bool(rng.random() < 0.25)
            if not in_place:
                x.setflags(write=False)
            if rng.random() < 0.1:
                s = P.Stack(int(rng.integers(1, 7)), time_axis=0, pad_mode=mode, **kwargs)
                s.num_vectors, s.time_axis = n, time_axis  # documented public attributes
                rec.count("attributes_reassigned_after_construction")
            else:
                s = P.Stack(n, time_axis=time_axis, pad_mode=mode, **kwargs)
            if j % 5 == 2:
                way = COPY_WAYS[(j // 5) % 3]
                try:
                    s = monitor.adopt(copied(s, way), s)
                    rec.count("stack_applied_through_a_%s" % way)
                except Exception as e:
                    mon.v("copying (%s) a Stack object raised %r" % (way, e), check="copy_raise", op="stack", pad_mode=str(mode))
            try:
                y = s.apply(x, axis, in_place) if rng.random() < 0.5 else s.apply(x, axis=axis, in_place=in_place)
            except Exception:
                y = None
            if j % 3 == 0 and y is not None:
                # the same object on a tensor with one more (leading) dimension: a negative axis means the same axis from the end, and the
                # documented public attributes read what they were set to
                before_attrs = (n, time_axis)  # what the object was given (by its constructor or by assignment)
                x5 = np.array(np.broadcast_to(np.asarray(x), (2,) + tuple(shape)))
                x5.setflags(write=False)
                ta, ax = time_axis, axis
                if ta < 0 and ax < 0:
                    try:
                        s.apply(x5, ax)
                        rec.count("stack_objects_applied_to_tensors_of_another_rank")
                    except Exception:
                        pass
                if (s.num_vectors, s.time_axis) != before_attrs:
                    mon.v("Stack.apply changed the object's public attributes from %r to %r" % (before_attrs, (s.num_vectors, s.time_axis)), check="attributes", op="stack",
                          shape=shape, dtype=dtype, axis=axis, time_axis=time_axis, num_vectors=n, pad_mode=str(mode))
            if rng.random() < 0.4:
                rec.count("stack_objects_called_repeatedly")
                for dt2 in [str(t) for t in rng.permutation(["float64", "float32", "int32", dtype])][:2]:
                    x2 = _data(rng, shape, dt2)
                    x2.setflags(write=False)
                    try:
                        s.apply(x2, axis)
                    except Exception:
                        pass
            if ndim == 2 and y is not None:
                # 2-D fast path vs the N-D path on the same data with a trailing singleton axis
                x3 = np.array(x)[:, :, None]
                x3.setflags(write=False)
                s3 = P.Stack(n, time_axis=time_axis % 2, pad_mode=mode, **kwargs)
                y3 = s3.apply(x3, axis % 2)
                rec.count("stack_2d_vs_nd_pairs")
                if y3.shape[:2] != y.shape or not np.array_equal(y3[:, :, 0], y):
                    mon.v("Stack 2-D path and N-D path disagree on the same data", check="paths", op="stack", shape=shape, dtype=dtype, axis=axis,
                          time_axis=time_axis, num_vectors=n, pad_mode=str(mode))
            last = {"shape": shape, "dtype": dtype, "axis": axis, "time_axis": time_axis, "num_vectors": n, "pad_mode": mode, "in_place": in_place}
    rec.sample({"kind": kind, "last_call": last})
    if own:
        monitor.report(rec)
        monitor.detach_all()


def plan(tier, seed):
    q = tier == "quick"
    cases = []
    k = 16 if q else 160
    for i in range(k):
        cases.append({"kind": "deltas" if i % 2 == 0 else "stack", "n": 200 if q else 650, "seed": seed, "idx": i})
    nsh = 8 if q else 16
    return [{"cases": cases[i::nsh]} for i in range(nsh) if cases[i::nsh]]


def run_shard(spec, rec):
    if "suite" in spec:
        from .. import suite

        return suite.run(__name__.rsplit(".", 1)[-1], spec, rec)
    import pydrobert.speech.post as _sut

    sanit.install([_sut])  # poison-fill sanitizer: np.empty results are pre-filled with NaN while this shard runs
    mon = Mon(rec)
    mon.attach()
    for case in spec["cases"]:
        run_case(case, rec, mon)
    rec.count("sanitizer_np_empty_intercepted", sanit.COUNTS["empty"] + sanit.COUNTS["empty_like"])
    sanit.uninstall([_sut])
    monitor.report(rec)
    monitor.detach_all()


def finish(rec):
    monitor.require(rec, ["Deltas.apply", "Stack.apply"])
    for k in ("stack_2d_vs_nd_pairs", "stack_fewer_frames_than_num_vectors", "deltas_ndim_1", "deltas_ndim_4", "stack_ndim_2", "stack_ndim_4"):
        if not rec.counters[k]:
            rec.inconc("class %s never observed" % k)


def classify(w):
    return None
