"""C18 - pre-processors apply the documented sample-wise transforms.

Monitors: post-hooks on Preemphasize.apply (explicit float64 recurrence as oracle, input
digest before/after, dtype/shape) and Dither.apply (dtype/shape/input digest; coeff 0 is
the identity).  The driver adds the seed-based identities for Dither (reproducibility,
independence of the signal, linearity in coeff, moments) and the torch functional forms.
"""
import numpy as np

from .. import monitor
from ..common import rng_for

OPTIMIZED_SHARDS = 1  # shards run once more in an interpreter started with -O (vf/run.py)
LEVEL = "exploration"
TECHNIQUE = "runtime monitors on Preemphasize.apply / Dither.apply: explicit-recurrence oracle, write sanitizer (read-only inputs + digests), seeded statistical identities; ambient-settings monitor (stateless calls repeated under -W error and np.errstate raise)"
RULE = (
    "cases: seeded (length in {0,1,2,3,..} incl. long, dtype in float16/32/64,int16/32, coeff, in_place, read-only flag, contiguous or strided view), every fifth Dither through a copy (deepcopy / pickle / copy); "
    "non-trivial = length >= 2 (the recurrence has something to do) / dither coeff > 0; distinct by (op, dtype, length, coeff, in_place, data seed)"
)
ASSUMPTIONS = [
    "signals are 1-D (the axis argument is deprecated) plus 2-D with the default (last) axis; integer inputs stay inside their range",
    "float results are compared exactly (the recurrence in float64 followed by one astype is deterministic); an integer result may differ by 1 only when the float64 value is within 1e-9 of an integer",
    "Dither moments: |mean| <= 6 coeff/sqrt(N), |std-coeff| <= 6 coeff/sqrt(2N) on float64 input",
]
ANCHOR_FILES = ("src/pydrobert/speech/pre.py", "src/pydrobert/speech/torch.py")
EXHAUSTIVE_PARTS = []
SUITE_TESTS = ['tests/test_pre.py', 'tests/test_command_line.py']  # the repository's own tests as an extra monitored workload (thorough tier)
LEVEL_TEXT = (
    "Every Preemphasize.apply call of the workload (thousands of length/dtype/coeff/in_place combinations, read-only inputs) is compared "
    "with an explicit y[i]=x[i]-c*x[i-1] loop in float64 and cast; Dither is checked through seed-based identities that do not depend on how "
    "the noise is drawn. Sampling of an infinite input space; lengths 0..40 are all visited for every dtype."
)
LEVEL_NOTE = "Trusts NumPy's astype semantics and np.random.seed reproducibility."

FLOATS = ["float16", "float32", "float64"]
INTS = ["int16", "int32"]


def _ref_preemph(x, c):
    x64 = np.asarray(x, dtype=np.float64)
    if x64.size == 0:
        return x64.copy()
    if x64.shape[-1] > 5000:
        # long signals: the same recurrence written once with shifted views (the sample loop below is the
        # definition; both agree on every short signal of the run)
        out = x64.copy()
        out[..., 1:] = x64[..., 1:] - float(c) * x64[..., :-1]
        return out
    flat = x64.reshape(-1, x64.shape[-1]) if x64.ndim else x64.reshape(1, 1)
    out = np.empty_like(flat)
    c = float(c)
    for r in range(flat.shape[0]):
        row = flat[r]
        prev = None
        for i in range(row.shape[0]):
            xi = float(row[i])
            out[r, i] = xi if prev is None else xi - c * prev
            prev = xi
    return out.reshape(x64.shape)


class Mon:
    def __init__(self, rec):
        from ..history import ResultHistory

        self.rec = rec
        self.case = None
        self.hist = ResultHistory(rec, self.v)

    def attach(self):
        from pydrobert.speech import pre as P

        monitor.attach(P.Preemphasize, "apply", pre=self.pre, post=self.post_preemph, ambient=self.v, ambient_ok=monitor.not_in_place)
        monitor.attach(P.Dither, "apply", pre=self.pre, post=self.post_dither)

    def v(self, what, **kw):
        self.rec.violation(dict(what=what, case=self.case, **kw))

    @staticmethod
    def _args(c):
        kw = {"axis": None, "in_place": False}
        kw.update(dict(zip(("signal", "axis", "in_place"), c.args)))
        kw.update(c.kwargs)
        return kw

    def pre(self, c):
        kw = self._args(c)
        sig = kw["signal"]
        return {"copy": np.array(sig, copy=True), "kw": kw}

    def post_preemph(self, c):
        st = c.state
        if st is None:
            return
        kw, before = st["kw"], st["copy"]
        if kw["axis"] not in (None, -1) or before.ndim < 1:
            self.rec.count("preemph_out_of_scope")
            return
        self.rec.ev()
        self.rec.count("preemph_calls")
        coeff = c.self.coeff
        info = dict(op="preemph", dtype=str(before.dtype), shape=list(before.shape), coeff=coeff, in_place=bool(kw["in_place"]))
        if c.exc is not None:
            self.v("Preemphasize(%r).apply(%s%r, in_place=%r) raised %r" % (coeff, before.dtype, before.shape, kw["in_place"], c.exc), check="raise", **info)
            return
        out = np.asarray(c.result)
        if out.dtype != before.dtype or out.shape != before.shape:
            self.v("Preemphasize result %s%r for input %s%r" % (out.dtype, out.shape, before.dtype, before.shape), check="dtype_shape", **info)
            return
        ref64 = _ref_preemph(before, coeff)
        with np.errstate(all="ignore"):
            ref = ref64.astype(before.dtype)
        if np.issubdtype(before.dtype, np.floating):
            ok = np.array_equal(out, ref)
            if not ok:
                # allow one ulp of the target type
                eps = np.finfo(before.dtype).eps
                ok = bool(np.all(np.abs(out.astype(np.float64) - ref.astype(np.float64)) <= eps * np.abs(ref.astype(np.float64))))
                self.rec.count("preemph_not_bit_exact")
        else:
            d = np.abs(out.astype(np.int64) - ref.astype(np.int64))
            near = np.abs(ref64 - np.round(ref64)) < 1e-9
            ok = bool(np.all((d == 0) | ((d <= 1) & near)))
        if not ok:
            i = int(np.argmax(np.abs(out.astype(np.float64) - ref.astype(np.float64)).ravel()))
            self.v("Preemphasize(%r) on %s len %r: y[%d] = %r, recurrence gives %r" % (
                coeff, before.dtype, before.shape, i, out.ravel()[i].item(), ref.ravel()[i].item()), check="recurrence", **info)
        if not kw["in_place"] and not np.array_equal(np.asarray(kw["signal"]), before):
            self.v("Preemphasize.apply(in_place=False) modified its input", check="input_modified", **info)
        self.hist.observe(c.self, c.result, "Preemphasize.apply", overwritten=[kw["signal"]] if kw["in_place"] else [], **info)
        if before.shape[-1] >= 2:
            self.rec.nt(("preemph", str(before.dtype), before.shape, coeff, bool(kw["in_place"]), float(np.sum(before.astype(np.float64)))))

    def post_dither(self, c):
        st = c.state
        if st is None:
            return
        kw, before = st["kw"], st["copy"]
        self.rec.ev()
        self.rec.count("dither_calls")
        coeff = c.self.coeff
        info = dict(op="dither", dtype=str(before.dtype), shape=list(before.shape), coeff=coeff, in_place=bool(kw["in_place"]))
        if c.exc is not None:
            self.v("Dither(%r).apply(%s%r, in_place=%r) raised %r" % (coeff, before.dtype, before.shape, kw["in_place"], c.exc), check="raise", **info)
            return
        out = np.asarray(c.result)
        if out.dtype != before.dtype or out.shape != before.shape:
            self.v("Dither result %s%r for input %s%r" % (out.dtype, out.shape, before.dtype, before.shape), check="dtype_shape", **info)
            return
        if coeff == 0 and not np.array_equal(out, before):
            self.v("Dither(0) is not the identity", check="dither_identity", **info)
        if not kw["in_place"] and not np.array_equal(np.asarray(kw["signal"]), before):
            self.v("Dither.apply(in_place=False) modified its input", check="input_modified", **info)
        self.hist.observe(c.self, c.result, "Dither.apply", overwritten=[kw["signal"]] if kw["in_place"] else [], **info)
        if coeff > 0:
            self.rec.nt(("dither", str(before.dtype), before.shape, coeff, bool(kw["in_place"]), float(np.sum(before.astype(np.float64)))))


class _OwnArray(np.ndarray):
    """a user's ndarray subclass"""


_MAPPED = {}


def _as_subclass(rng, x):
    import os
    import tempfile

    x = np.array(x)
    if rng.random() < 0.5 or x.size == 0:
        return x.view(_OwnArray)
    fd, path = tempfile.mkstemp(prefix="c18_", suffix=".raw")
    os.close(fd)
    x.tofile(path)
    m = np.memmap(path, dtype=x.dtype, mode="c", shape=x.shape)  # copy-on-write: writes never reach the file
    _MAPPED[id(m)] = path
    return m


def _release(xs):
    import os

    path = _MAPPED.pop(id(xs), None)
    if path:
        try:
            del xs
            os.unlink(path)
        except OSError:
            pass


def _signal(rng, n, dtype, two_d=False):
    shape = (int(rng.integers(1, 4)), n) if two_d else (n,)
    if dtype in INTS:
        lim = 3000 if dtype == "int16" else 10 ** 6
        x = rng.integers(-lim, lim, shape).astype(dtype)
    else:
        amp = float(rng.choice([1e-3, 1.0, 100.0]))
        x = (rng.standard_normal(shape) * amp).astype(dtype)
    return x


def run_case(case, rec, mon=None):
    own = mon is None
    if own:
        monitor.detach_all()
        mon = Mon(rec)
        mon.attach()
    mon.case = case
    from pydrobert.speech import pre as P

    rng = rng_for(case["seed"], "C18", case["idx"])
    kind = case["kind"]
    if kind == "preemph":
        for j in range(case["n"]):
            n = int(case["lengths"][j % len(case["lengths"])]) if case.get("lengths") else int(rng.integers(0, 300))
            if case.get("long") and j < len(case["long"]):
                n = int(case["long"][j])  # block-size boundaries of any chunked implementation
                rec.count("preemph_long_signals")
            dtype = str(rng.choice(FLOATS + INTS))
            coeff = float(rng.choice([0.97, 0.0, 1.0, 0.5, -0.9, float(rng.uniform(-1.5, 1.5))]))
            two_d = rng.random() < 0.1
            x = _signal(rng, n, dtype, two_d)
            if dtype in INTS and n and not two_d and j % 3 == 1 and abs(coeff) <= 0.99:
                # the extreme values of the integer type are samples like any other: the recording starts on the type's minimum, and
                # the next sample is such that the exact result stays in range
                lo, hi = np.iinfo(dtype).min, np.iinfo(dtype).max
                x[0] = lo
                if n > 1:
                    x[1] = int(round(coeff * lo))
                if n > 4:
                    x[2], x[3], x[4] = 0, hi, int(round(coeff * hi))  # ... and the maximum, reached exactly as well
                rec.count("integer_signals_starting_on_the_type_minimum")
            if j % 6 == 2 and x.dtype.itemsize > 1:
                x = x.astype(x.dtype.newbyteorder())  # samples stored in the other byte order (big-endian PCM, say): that is the input's dtype
                rec.count("signals_in_the_other_byte_order")
            mode = int(rng.integers(4))
            if j % 8 == 3:
                # the coefficient as it comes out of an array of settings: a NumPy scalar of a narrow, unsigned or single-precision
                # type, or a 0-d array - the same number
                tk = (j // 8) % 8
                if tk < 4:
                    coeff = [np.uint8, np.uint16, np.uint32, np.uint64][tk](int(rng.integers(0, 2)))
                elif tk == 4:
                    coeff = np.int8(int(rng.choice([-1, 0, 1])))
                elif tk == 5:
                    coeff = np.float32(coeff)
                elif tk == 6:
                    coeff = np.float16(coeff)
                else:
                    coeff = np.array(coeff)
                rec.count("preemphasis_coefficients_given_as_numpy_scalars")
            p = P.Preemphasize(coeff)
            if j % 5 == 0:
                from ..common import poke

                poke(p)
                rec.count("objects_inspected_before_apply")
            if rng.random() < 0.1:
                p = P.Preemphasize(0.123)
                p.coeff = coeff  # documented public attribute
                rec.count("attributes_reassigned_after_construction")
            if mode == 0:  # read-only input, not in place (the flag also spelled with other false values)
                x.setflags(write=False)
                k_ip = int(rng.integers(6))
                y = p.apply(x) if k_ip < 2 else p.apply(x, in_place=[False, 0, np.False_, None][k_ip - 2])
            elif mode == 1:  # strided (non-contiguous) view
                big = np.repeat(x, 2, axis=-1)
                y = p.apply(big[..., ::2])
            elif mode == 2:  # in place: same values as not in place
                x2 = x.copy()
                y_ref = p.apply(x)
                y = p.apply(x2, in_place=True)
                rec.count("preemph_in_place_pairs")
                if not np.array_equal(y, y_ref):
                    mon.v("Preemphasize in_place=True differs from in_place=False (%s, len %d)" % (dtype, n), check="in_place_values",
                          op="preemph", dtype=dtype, shape=list(x.shape), coeff=coeff)
            else:
                y = p.apply(x, in_place=False)
                if n and np.shares_memory(y, x):
                    mon.v("Preemphasize(in_place=False) result shares memory with its input", check="aliasing", op="preemph", dtype=dtype, shape=list(x.shape), coeff=coeff)
            if rng.random() < 0.2 and n:
                # the samples as an ndarray subclass (a copy-on-write memory map of a file, a user's own subclass): still the
                # caller's array, untouched unless in_place
                xs = _as_subclass(rng, x)
                rec.count("ndarray_subclass_inputs")
                try:
                    p.apply(xs)
                    P.Dither(float(rng.choice([0.5, 2.0]))).apply(xs)
                except Exception:
                    rec.count("ndarray_subclass_inputs_refused")
                finally:
                    _release(xs)
            if rng.random() < 0.35 and n:
                # the same object again on signals of the same shape: earlier results stay what they were
                rec.count("preemph_objects_called_repeatedly")
                for dt2 in [str(t) for t in rng.permutation([dtype, dtype, "float64", "float32", "int16"])][:3]:
                    x4 = _signal(rng, n, dt2, two_d)
                    x4.setflags(write=False)
                    y4 = p.apply(x4)
                    if rng.random() < 0.3:
                        p.apply(y4)  # chained on its own output
        rec.sample({"kind": kind, "last": {"n": n, "dtype": dtype, "coeff": coeff, "mode": mode}})
    elif kind == "dither":
        for j in range(case["n"]):
            n = int(rng.choice([0, 1, 2, 3, int(rng.integers(4, 400))]))
            dtype = str(rng.choice(FLOATS + INTS))
            coeff = float(rng.choice([1.0, 0.0, 0.5, float(np.exp(rng.uniform(-3, 3)))]))
            s = int(rng.integers(0, 2 ** 31 - 1))
            x = _signal(rng, n, dtype)
            if dtype in INTS and n and coeff == 0.0:
                x[int(rng.integers(n))] = np.iinfo(dtype).min  # (coeff 0 is the identity on every representable sample)
                x[int(rng.integers(n))] = np.iinfo(dtype).max
                rec.count("dither_identity_on_integer_extremes")
            if j % 6 == 4 and x.dtype.itemsize > 1:
                x = x.astype(x.dtype.newbyteorder())
                rec.count("signals_in_the_other_byte_order")
            x.setflags(write=False)
            d = P.Dither(coeff)
            if rng.random() < 0.1:
                d = P.Dither(9.0)
                d.coeff = coeff  # documented public attribute
            if j % 5 == 2:
                # the object as a worker process gets it (deep copy, pickle round trip, shallow copy): a Dither with the same coefficient,
                # whose noise is numpy's process-wide generator's like the original's
                from ..common import copied, COPY_WAYS

                way = COPY_WAYS[(j // 5) % 3]
                try:
                    d = copied(d, way)
                    rec.count("dither_applied_through_a_%s" % way)
                except Exception as e:
                    mon.v("copying (%s) a Dither object raised %r" % (way, e), check="copy_raise", op="dither", coeff=coeff)
            np.random.seed(s)
            y1 = d.apply(x)
            np.random.seed(s)
            k_ip = int(rng.integers(6))
            y2 = d.apply(x) if k_ip < 2 else d.apply(x, in_place=[False, 0, np.False_, None][k_ip - 2])  # (x is read-only)
            rec.count("dither_seed_pairs")
            if not np.array_equal(y1, y2):
                mon.v("Dither not reproducible under np.random.seed(%d)" % s, check="dither_seed", op="dither", dtype=dtype, shape=[n], coeff=coeff)
            if n and j % 3 == 2:
                # in_place on a signal of any type: the same values (only a float64 signal can actually be worked on in place)
                x6 = np.array(x)
                np.random.seed(s)
                try:
                    y6 = d.apply(x6, in_place=True)
                    rec.count("dither_in_place_on_signals_of_any_type")
                    if y6.dtype != y1.dtype or not np.array_equal(y6, y1):
                        mon.v("Dither in_place=True on a %s signal differs from in_place=False under the same seed" % dtype, check="in_place_values", op="dither", dtype=dtype, shape=[n], coeff=coeff)
                except Exception:
                    pass  # (reported by the monitor)
            if n:
                # the noise must not depend on the signal - not on its dtype either: the result is
                # the float64 sum of the signal and the noise drawn for a float64 zero signal
                # under the same seed, cast once to the input dtype
                np.random.seed(s)
                noise64 = d.apply(np.zeros(n))
                with np.errstate(all="ignore"):
                    want = (x.astype(np.float64) + noise64).astype(x.dtype)
                rec.count("dither_cast_checks")
                if not np.array_equal(y1, want):
                    mon.v("Dither(%r) on %s input: result is not cast(x + noise) for the noise of the same seed (%d of %d samples differ)" % (
                        coeff, dtype, int(np.sum(y1 != want)), n), check="dither_cast", op="dither", dtype=dtype, shape=[n], coeff=coeff, np_seed=s)
            if dtype == "float64" and n:
                z = np.zeros(n)
                np.random.seed(s)
                noise = d.apply(z)
                rec.count("dither_independence_checks")
                tol = 4 * np.finfo(np.float64).eps * (np.abs(x) + np.abs(noise))
                if not np.all(np.abs((y1 - x) - noise) <= tol):
                    mon.v("Dither noise depends on the signal (seed %d)" % s, check="dither_independence", op="dither", dtype=dtype, shape=[n], coeff=coeff)
                k = float(rng.choice([2.0, 0.5, 3.0, 10.0]))
                np.random.seed(s)
                noise_k = P.Dither(k * coeff).apply(z)
                rec.count("dither_linearity_checks")
                if not np.all(np.abs(noise_k - k * noise) <= 8 * np.finfo(np.float64).eps * np.abs(k * noise)):
                    mon.v("Dither noise is not linear in coeff (k=%r, seed %d)" % (k, s), check="dither_linearity", op="dither", dtype=dtype, shape=[n], coeff=coeff)
                # in place on float64 gives the same values
                x3 = np.array(x)
                np.random.seed(s)
                y3 = d.apply(x3, in_place=True)
                if not np.array_equal(y3, y1):
                    mon.v("Dither in_place=True differs from in_place=False", check="in_place_values", op="dither", dtype=dtype, shape=[n], coeff=coeff)
                # ... also when the signal is a strided view (one channel of an interleaved recording, a reversed signal)
                lay = int(rng.integers(3))
                if lay == 0:
                    big = np.zeros((n, 2))
                    view = big[:, 0]
                elif lay == 1:
                    big = np.zeros(2 * n)
                    view = big[::2]
                else:
                    big = np.zeros(n)
                    view = big[::-1]
                view[:] = x
                np.random.seed(s)
                y5 = d.apply(view, in_place=True)
                rec.count("dither_in_place_on_strided_views")
                if not np.array_equal(y5, y1) or not np.array_equal(view, y1):
                    mon.v("Dither in_place=True on a strided view differs from in_place=False under the same seed (layout %d)" % lay, check="in_place_values", op="dither",
                          dtype=dtype, shape=[n], coeff=coeff)
        # a long recording (around 2^20 samples: two minutes of telephone speech): reproducible under the seed like any other, and the
        # noise is the generator's sequence for that seed scaled by coeff
        nl = 2 ** 20 + (case["idx"] % 3) - 1
        xl = np.zeros(nl, dtype=np.float32 if case["idx"] % 2 else np.float64)
        xl.setflags(write=False)
        dl = P.Dither(0.5)
        np.random.seed(s)
        y1 = dl.apply(xl)
        np.random.seed(s)
        y2 = dl.apply(xl)
        np.random.seed(s)
        ref = (np.random.normal(0, 0.5, nl)).astype(xl.dtype)
        rec.ev()
        rec.count("dither_seed_pairs_on_long_recordings")
        if not np.array_equal(y1, y2):
            mon.v("Dither not reproducible under np.random.seed(%d) on a recording of %d samples" % (s, nl), check="dither_seed", op="dither", dtype=str(xl.dtype), shape=[nl], coeff=0.5)
        elif not np.array_equal(y1, ref):
            mon.v("Dither on a recording of %d samples does not add the seeded generator's normal sequence" % nl, check="dither_seed", op="dither", dtype=str(xl.dtype), shape=[nl], coeff=0.5)
        rec.sample({"kind": kind, "last": {"n": n, "dtype": dtype, "coeff": coeff, "np_seed": s}})
    elif kind == "dither_moments":
        N = case["N"]
        for coeff in case["coeffs"]:
            s = int(rng.integers(0, 2 ** 31 - 1))
            x = rng.standard_normal(N) * 50
            np.random.seed(s)
            nz = P.Dither(coeff).apply(x) - x
            m, sd = float(nz.mean()), float(nz.std())
            rec.count("dither_moment_checks")
            if not (abs(m) <= 6 * coeff / np.sqrt(N) and abs(sd - coeff) <= 6 * coeff / np.sqrt(2 * N)):
                mon.v("Dither(%r) noise has mean %g, std %g over %d samples" % (coeff, m, sd, N), check="dither_moments", op="dither", coeff=coeff, N=N, np_seed=s)
            # noise must not correlate with the signal
            r = float(np.corrcoef(nz, x)[0, 1])
            if abs(r) > 6 / np.sqrt(N):
                mon.v("Dither noise correlates with the signal (r=%g)" % r, check="dither_independence", op="dither", coeff=coeff, N=N, np_seed=s)
        rec.sample({"kind": kind, "N": N, "coeffs": case["coeffs"]})
    elif kind == "torch":
        import torch
        from pydrobert.speech import torch as T

        old_default = torch.get_default_dtype()
        for j in range(case["n"]):
            if j == case["n"] // 2:
                torch.set_default_dtype(torch.float64)  # a process-wide setting a user may change (second half of the case)
                rec.count("torch_cases_under_default_dtype_float64")
            n = int(rng.choice([0, 1, 2, 3, int(rng.integers(4, 300))]))
            coeff = float(rng.choice([0.97, 0.0, 1.0, float(rng.uniform(-1, 1))]))
            x = rng.standard_normal(n)
            for dt in (torch.float64, torch.float32, torch.float16, torch.bfloat16):
                xt = torch.tensor(x, dtype=dt)
                yt = T.pytorch_preemphasize(xt, coeff)
                rec.count("torch_preemph_dtype_checks")
                if yt.dtype != dt:
                    mon.v("pytorch_preemphasize returned %s for a %s signal%s" % (yt.dtype, dt, " (default dtype %s)" % torch.get_default_dtype()), check="torch_preemph_dtype",
                          op="torch_preemph", shape=[n], coeff=coeff)
                if dt in (torch.float16, torch.bfloat16):
                    # values: the recurrence to the precision of the narrow type
                    y16 = yt.to(torch.float64).numpy()
                    r16 = _ref_preemph(xt.to(torch.float64).numpy(), coeff)
                    q = 2.0 ** (-7 if dt == torch.bfloat16 else -10)
                    if y16.shape != r16.shape or not np.all(np.abs(y16 - r16) <= 4 * q * (np.abs(r16) + np.abs(xt.to(torch.float64).numpy()) + 1e-30)):
                        mon.v("pytorch_preemphasize(%s len %d, coeff %r) differs from the recurrence" % (dt, n, coeff), check="torch_preemph", op="torch_preemph", shape=[n], coeff=coeff)
                    continue
                y = yt.numpy()
                ref = _ref_preemph(xt.numpy(), coeff)
                rec.ev()
                rec.count("torch_preemph_calls")
                tol = (1e-12 if dt == torch.float64 else 1e-5) * (np.abs(ref) + np.abs(x) + 1e-30)
                if y.shape != ref.shape or not np.all(np.abs(y - ref) <= tol):
                    mon.v("pytorch_preemphasize(%s len %d, coeff %r) differs from the recurrence" % (dt, n, coeff), check="torch_preemph", op="torch_preemph", shape=[n], coeff=coeff)
                if n >= 2:
                    rec.nt(("torch_preemph", str(dt), n, coeff, j))
            # integer tensors: whether the result is cast back is not stated for the torch function; whatever the policy,
            # it is the recurrence to within one unit of the integer type
            if n:
                xi = torch.tensor(np.round(x * 300).astype(np.int64)).to([torch.int16, torch.int32, torch.int64][j % 3])
                try:
                    yi = T.pytorch_preemphasize(xi, coeff).to(torch.float64).numpy()
                    refi = _ref_preemph(xi.numpy().astype(np.float64), coeff)
                    rec.ev()
                    rec.count("torch_preemph_integer_tensors")
                    if yi.shape != refi.shape or not np.all(np.abs(yi - refi) <= 1.0 + 1e-6 * np.abs(refi)):
                        mon.v("pytorch_preemphasize(%s len %d, coeff %r) is not the recurrence to within one unit" % (xi.dtype, n, coeff), check="torch_preemph", op="torch_preemph",
                              shape=[n], coeff=coeff)
                except Exception as e:
                    rec.count("torch_preemph_integer_tensor_refused")
            # the module form: a new module, and one that has been through the usual module conversions (.half(), .float(), .double(),
            # .to(bfloat16), a deep copy) before use - it has no parameters, so these change nothing: the functional form's values
            import copy as _copy

            conv = [lambda m: m, lambda m: m.half(), lambda m: m.float(), lambda m: m.double(), lambda m: m.to(torch.bfloat16), lambda m: _copy.deepcopy(m),
                    lambda m: m.half().float()][j % 7]
            try:
                mod = conv(T.PyTorchPreemphasize(coeff))
            except Exception as e:
                mod = None
                mon.v("converting a PyTorchPreemphasize module raised %r" % (e,), check="torch_preemph_module", op="torch_preemph", shape=[n], coeff=coeff)
            for dt in (torch.float64, torch.float32):
                if mod is None:
                    break
                xt = torch.tensor(x, dtype=dt)
                ym = mod(xt)
                yf = T.pytorch_preemphasize(xt, coeff)
                rec.ev()
                rec.count("torch_preemph_module_calls")
                if ym.dtype != yf.dtype or ym.shape != yf.shape or not torch.equal(ym, yf):
                    mon.v("PyTorchPreemphasize module (conversion %d) on a %s signal differs from pytorch_preemphasize with the same coefficient" % (j % 7, dt),
                          check="torch_preemph_module", op="torch_preemph", shape=[n], coeff=coeff)
            c2 = float(np.exp(rng.uniform(-3, 2)))
            s = int(rng.integers(0, 2 ** 31 - 1))
            xt = torch.tensor(x)
            torch.manual_seed(s)
            a = T.pytorch_dither(xt, c2)
            torch.manual_seed(s)
            b = T.PyTorchDither(c2)(xt)
            rec.ev()
            rec.count("torch_dither_seed_pairs")
            if not torch.equal(a, b):
                mon.v("pytorch_dither not reproducible under torch.manual_seed", check="torch_dither_seed", op="torch_dither", shape=[n], coeff=c2)
            if n and j % 4 == 1:
                # the module as deployed: traced (with an example of one floating type) or scripted once, then given signals of the
                # other floating types - the noise of the same seed, in the signal's own type
                import warnings as _w

                with _w.catch_warnings():
                    _w.simplefilter("ignore")
                    ex_dt = [torch.float32, torch.float64][(j // 4) % 2]
                    try:
                        mods = [("traced", torch.jit.trace(T.PyTorchDither(c2), (torch.zeros(max(n, 1), dtype=ex_dt),), check_trace=False)),
                                ("scripted", torch.jit.script(T.PyTorchDither(c2)))]
                    except Exception as e:
                        mods = []
                        mon.v("tracing / scripting a PyTorchDither module raised %r" % (e,), check="torch_dither_jit", op="torch_dither", shape=[n], coeff=c2)
                    for how, m in mods:
                        for dt in (torch.float64, torch.float32, torch.float16, torch.bfloat16):
                            xd = torch.tensor(x).to(dt)
                            torch.manual_seed(s)
                            want = T.pytorch_dither(xd, c2)
                            torch.manual_seed(s)
                            try:
                                got = m(xd)
                            except Exception as e:
                                got = e
                            rec.count("torch_dither_jit_module_calls")
                            if isinstance(got, Exception) or got.dtype != want.dtype or got.shape != want.shape or not torch.equal(got, want):
                                mon.v("a %s PyTorchDither module (example type %s) on a %s signal does not add the noise pytorch_dither adds under the same seed: %s"
                                      % (how, ex_dt, dt, repr(got)[:80] if isinstance(got, Exception) else got.dtype), check="torch_dither_jit", op="torch_dither", shape=[n], coeff=c2)
            if n:
                # with autograd switched off (the usual way to extract features) and on a module put in eval mode
                keep = xt.clone()
                with torch.no_grad():
                    torch.manual_seed(s)
                    a2 = T.pytorch_dither(xt, c2)
                    m = T.PyTorchDither(c2).eval()
                    torch.manual_seed(s)
                    b2 = m(xt)
                rec.count("torch_dither_no_grad_checks")
                if not torch.equal(xt, keep):
                    mon.v("pytorch_dither / PyTorchDither modified the tensor it was given (autograd off)", check="torch_dither_input", op="torch_dither", shape=[n], coeff=c2)
                if not (torch.equal(a2, a) and torch.equal(b2, a)):
                    mon.v("pytorch_dither with autograd off / PyTorchDither in eval mode does not add the noise of the same seed", check="torch_dither_seed", op="torch_dither",
                          shape=[n], coeff=c2)
        N = 200000
        xt = torch.zeros(N, dtype=torch.float64)
        torch.manual_seed(int(rng.integers(0, 2 ** 31 - 1)))
        nz = T.pytorch_dither(xt, 0.7).numpy()
        if not (abs(nz.mean()) <= 6 * 0.7 / np.sqrt(N) and abs(nz.std() - 0.7) <= 6 * 0.7 / np.sqrt(2 * N)):
            mon.v("pytorch_dither(0.7) noise mean %g std %g" % (nz.mean(), nz.std()), check="torch_dither_moments", op="torch_dither", coeff=0.7)
        torch.set_default_dtype(old_default)
        rec.sample({"kind": kind, "n": case["n"]})
    if own:
        monitor.report(rec)
        monitor.detach_all()


def plan(tier, seed):
    q = tier == "quick"
    cases = []
    idx = 0
    # every length 0..40 for every dtype appears (lengths cycle deterministically)
    LONG = [4095, 4096, 4097, 8193, 16385, 32767, 32768, 32769, 32770, 65536, 65537, 65538, 100001, 131073, 262145]
    for i in range(8 if q else 64):
        cases.append({"kind": "preemph", "n": 250 if q else 700, "lengths": list(range(0, 41)) if i % 2 == 0 else None, "seed": seed, "idx": idx,
                      "long": LONG[(2 * i) % len(LONG):][:2] if q else LONG[i % len(LONG):][:4]}); idx += 1
    for i in range(4 if q else 32):
        cases.append({"kind": "dither", "n": 150 if q else 300, "seed": seed, "idx": idx}); idx += 1
    for i in range(2 if q else 8):
        cases.append({"kind": "dither_moments", "N": 200000 if q else 1000000, "coeffs": [1.0, 0.01, 25.0], "seed": seed, "idx": idx}); idx += 1
    cases.append({"kind": "torch", "n": 40 if q else 300, "seed": seed, "idx": idx}); idx += 1
    nsh = 8 if q else 16
    return [{"cases": cases[i::nsh]} for i in range(nsh) if cases[i::nsh]]


def run_shard(spec, rec):
    if "suite" in spec:
        from .. import suite

        return suite.run(__name__.rsplit(".", 1)[-1], spec, rec)
    mon = Mon(rec)
    mon.attach()
    for case in spec["cases"]:
        run_case(case, rec, mon)
    monitor.report(rec)
    monitor.detach_all()


def finish(rec):
    monitor.require(rec, ["Preemphasize.apply", "Dither.apply"])
    for k in ("preemph_in_place_pairs", "dither_seed_pairs", "dither_independence_checks", "dither_linearity_checks", "dither_moment_checks", "dither_cast_checks",
              "torch_preemph_calls", "torch_dither_seed_pairs", "preemph_long_signals"):
        if not rec.counters[k]:
            rec.inconc("check %s never ran" % k)


def classify(w):
    return None
