"""C01 - chunked streaming equals whole-signal computation, for every chunking.

History monitor at the API boundary: wrappers on compute_chunk / finalize of both
computers record, per instance, the chunks given and the matrices returned since the last
finalize.  At every finalize the concatenated output is compared with compute_full of a
*fresh twin* (built from the constructor arguments captured by the construction spy) on the
concatenated input: same number of frames, same values up to round-off.
frame_by_frame_calculation goes through the same wrappers.  The whole run executes under
the poison-fill sanitizer (np.empty pre-filled with NaN / 1e300 in compute.py).
"""
import copy
import weakref

import numpy as np

from .. import compmon, gen, monitor, sanit
from ..common import rng_for, split
from ..oracle import si_ref
from ..oracle.stft_ref import compare_features

OPTIMIZED_SHARDS = 1  # shards run once more in an interpreter started with -O (vf/run.py)
LEVEL = "exploration"
TECHNIQUE = "history monitor on compute_chunk/finalize vs compute_full of a fresh twin; exhaustive enumeration of all 2^(N-1) chunk compositions on tiny geometries; poison-fill sanitizer"
RULE = (
    "(a) exhaustive core: for each tiny configuration (STFT fl<=8, fs<=fl; SI Gabor/gammatone banks with supports <= 14 samples, DFT 16) every N in 0..Nmax "
    "(12 quick / 15 thorough) and ALL 2^(N-1) compositions, plus every composition with an empty chunk inserted at every position for N<=8 (quick: N<=6); "
    "(b) random configurations x boundary lengths {0,1,fs//2-1..fs//2+1,fl//2..fl//2+2,fl-1..fl+1,k*fs-1..k*fs+1, fl+j*fs+r, DFT blocks} x random "
    "compositions biased to single samples / one big chunk / empties; (c) frame_by_frame_calculation with chunk_size in {1,2,3,7,fs,fl,fl+1,1024}. "
    "non-trivial = >=1 frame and >=2 non-empty chunks; distinct by (configuration, N, composition)"
)
ASSUMPTIONS = [
    "scope: STFT frame_shift <= frame_length; SI causal fs < min(max right_i, right of widest filter), centered fs < max(right_i-left_i)//2",
    "values compared in the linear domain: 1e-7 relative + 1e-10 x largest coefficient (float32 chunks: 1e-4 / 1e-6)",
    "the oracle is compute_full of a fresh twin; C02/C03 tie compute_full itself to an independent definition",
]
ANCHOR_FILES = ("src/pydrobert/speech/compute.py",)
EXHAUSTIVE_PARTS = ["all 2^(N-1) compositions of every N <= Nmax for each tiny configuration", "every single-empty-chunk insertion for N <= 8 (thorough) / 6 (quick)"]
LEVEL_TEXT = (
    "The quantifier 'every way of cutting the signal' is enumerated completely for every length up to 12 (quick) / 15 (thorough) on tiny geometries "
    "of both computers (all frame styles, kaldi_shift, padded and unpadded DFTs), and sampled with boundary-biased lengths and compositions on "
    "random larger configurations. The monitor observes every compute_chunk/finalize of the run; evidence counts runs, frames and the length classes "
    "named in the property."
)
LEVEL_NOTE = "Trusts compute_full as the reference (tied to an independent oracle by C02/C03) and the twin construction through the public constructor."


def scope_ok(comp):
    from pydrobert.speech import compute as C

    if isinstance(comp, C.ShortTimeFourierTransformFrameComputer):
        return 1 <= comp.frame_shift <= comp.frame_length
    if isinstance(comp, C.ShortIntegrationFrameComputer):
        return comp.frame_shift >= 1 and si_ref.in_scope(comp.bank.supports, comp.frame_shift, comp.frame_style)
    return False


def make_twin(comp):
    inf = compmon.info(comp)
    if inf is None or inf["args"] is None:
        return None
    args = {}
    for k, v in inf["args"].items():
        args[k] = v if k == "bank" and not isinstance(v, (dict, str)) else copy.deepcopy(v)
    with monitor.quiet():
        return type(comp)(**args)


class _Outcome:
    __slots__ = ("exc", "result")

    def __init__(self, exc, result):
        self.exc, self.result = exc, result


class Hist:
    __slots__ = ("ins", "outs", "error")

    def __init__(self):
        self.ins, self.outs, self.error = [], [], None


class StreamMonitor:
    def __init__(self, rec):
        self.rec = rec
        self.case = None
        self.hist = weakref.WeakKeyDictionary()
        self.twins = weakref.WeakKeyDictionary()
        self.renew = weakref.WeakKeyDictionary()
        self.uses = weakref.WeakKeyDictionary()
        self.in_finalize = set()
        self._hsum = weakref.WeakKeyDictionary()

    def attach(self):
        from pydrobert.speech import compute as C

        compmon.attach()
        for cls in (C.ShortTimeFourierTransformFrameComputer, C.ShortIntegrationFrameComputer):
            monitor.attach(cls, "compute_chunk", pre=self.pre_chunk, post=self.post_chunk)
            monitor.attach(cls, "finalize", pre=self.pre_finalize, post=self.post_finalize)

    def v(self, what, **kw):
        self.rec.violation(dict(what=what, case=self.case, **kw))

    def hsum(self, comp, inf):
        """max_i sum_n |h_i[n]| at the buffer width the computer uses (1 for the energy impulse)"""
        v = self._hsum.get(comp)
        if v is None:
            v = 1.0
            if inf and len(inf["ir_widths"]) == 1:
                with monitor.quiet():
                    for i in range(comp.bank.num_filts):
                        v = max(v, float(np.sum(np.abs(comp.bank.get_impulse_response(i, inf["ir_widths"][0])))))
            self._hsum[comp] = v
        return v

    def pre_chunk(self, c):
        x = c.args[0] if c.args else c.kwargs.get("chunk")
        return np.array(x, copy=True)

    def pre_finalize(self, c):
        # SI finalize flushes by calling compute_chunk on itself: that is not a client call
        self.in_finalize.add(id(c.self))
        return True

    def post_chunk(self, c):
        if id(c.self) in self.in_finalize:
            self.rec.count("internal_compute_chunk_calls_ignored")
            return
        h = self.hist.get(c.self)
        if h is None:
            h = self.hist[c.self] = Hist()
        self.rec.count("compute_chunk_calls")
        if c.exc is not None:
            if isinstance(c.exc, ValueError) and c.state is not None and not np.issubdtype(c.state.dtype, np.floating):
                # a documented refusal (a chunk that is not of a floating type): it is not part of the signal, and the
                # stream goes on as if the call had not been made
                self.rec.count("refused_non_float_chunks_ignored")
                return
            h.error = c.exc
            return
        h.ins.append(c.state)
        h.outs.append(np.asarray(c.result))
        if not np.array_equal(np.asarray(c.args[0] if c.args else c.kwargs.get("chunk")), c.state):
            self.v("compute_chunk modified its input", check="input_modified")

    def post_finalize(self, c):
        from pydrobert.speech import config
        from pydrobert.speech import compute as C

        comp = c.self
        self.in_finalize.discard(id(comp))
        h = self.hist.pop(comp, None) or Hist()
        self.rec.count("finalize_calls")
        self.judge(comp, h, c.exc, c.result)

    def judge(self, comp, h, exc, result):
        """one logical stream: the chunks handed to `comp` (h.ins), what came back (h.outs) and its finalize() outcome"""
        from pydrobert.speech import config
        from pydrobert.speech import compute as C

        c = _Outcome(exc, result)
        if not scope_ok(comp):
            self.rec.count("out_of_scope_configuration")
            return
        if h.error is not None:
            self.rec.count("utterances_with_rejected_chunk")
            return
        inf = compmon.info(comp)
        if inf is None or inf["args"] is None:
            self.rec.count("unknown_construction")
            return
        dts = {a.dtype for a in h.ins}
        if len(dts) > 1 or any(a.ndim != 1 or not np.issubdtype(a.dtype, np.floating) or not np.all(np.isfinite(a)) for a in h.ins):
            self.rec.count("out_of_scope_input")
            return
        self.rec.ev()
        is_stft = isinstance(comp, C.ShortTimeFourierTransformFrameComputer)
        x = np.concatenate(h.ins) if h.ins else np.zeros(0)
        N = len(x)
        comp_lens = [len(a) for a in h.ins]
        a = inf["args"]
        info = dict(kind="stft" if is_stft else "si", N=N, composition=comp_lens if len(comp_lens) <= 40 else comp_lens[:40] + ["..."],
                    fs=int(comp.frame_shift), fl=int(comp.frame_length), style=comp.frame_style, kaldi=bool(a.get("kaldi_shift", False)),
                    pad=bool(a.get("pad_to_nearest_power_of_two")), dtype=str(x.dtype), bank=type(comp.bank).__name__)
        if c.exc is not None:
            self.v("finalize raised %r after chunks %r" % (c.exc, comp_lens[:20]), check="raise", **info)
            return
        outs = h.outs + [np.asarray(c.result)]
        F = comp.num_coeffs
        if any(o.ndim != 2 or o.shape[1] != F for o in outs):
            self.v("a streaming result is not (frames, %d): shapes %r" % (F, [o.shape for o in outs][:10]), check="shape", **info)
            return
        got = np.concatenate(outs)
        # the reference object is reused for speed, but not across the histories in which state could survive unnoticed on
        # both sides alike: after an utterance without frames (and every 64th time anyway) a new one is constructed
        twin = self.twins.get(comp)
        if twin is None or self.renew.get(comp):
            twin = make_twin(comp)
            self.twins[comp] = twin
            self.rec.count("reference_objects_constructed")
        with monitor.quiet():
            try:
                want = twin.compute_full(x)
            except Exception as e:
                self.rec.count("twin_compute_full_raised")
                self.rec.note("twin raised %r for %r" % (e, info))
                return
        self.uses[comp] = self.uses.get(comp, 0) + 1
        self.renew[comp] = bool(want.shape[0] == 0 or self.uses[comp] % 64 == 0)
        self.rec.count("streamed_utterances_%s" % info["kind"])
        self.rec.count("frames_compared", int(want.shape[0]))
        fl, fs = info["fl"], info["fs"]
        if is_stft:
            if fs // 2 <= N < fl // 2 + 1:
                self.rec.count("stft_lengths_between_half_shift_and_half_frame")
            if comp.frame_style == "causal" and N >= fl and want.shape[0]:
                rem = N - ((N - fl) // fs + 1) * fs
                if (want.shape[0] - 1) * fs + fl - N > rem:
                    self.rec.count("causal_tail_padding_exceeds_remainder")
        if got.shape[0] != want.shape[0]:
            self.v("streaming gave %d frames, compute_full %d (N=%d, chunks %r, %s fl=%d fs=%d %s%s)" % (
                got.shape[0], want.shape[0], N, comp_lens[:20], info["kind"], fl, fs, info["style"], " kaldi" if info["kaldi"] else ""),
                check="frame_count", got_frames=int(got.shape[0]), want_frames=int(want.shape[0]), **info)
            return
        rtol, atol = (1e-4, 1e-6) if x.dtype == np.float32 else (2e-2, 2e-3) if x.dtype == np.float16 else (1e-7, 1e-10)
        extra = 0.0
        if not is_stft and N:
            # rounding floor of the FFT-based convolution (see C03): blocks are aligned differently when streaming
            delta = 256 * np.finfo(np.float64).eps * float(np.max(np.abs(x))) * self.hsum(comp, inf)
            w64 = np.asarray(want, dtype=np.float64)
            lin = np.exp(w64) if a.get("use_log") else w64
            extra = (2 * np.sqrt(np.abs(lin)) * delta + delta ** 2) if a.get("use_power") else delta
        ok, i, detail = compare_features(got.astype(np.float64), np.asarray(want, dtype=np.float64), bool(a.get("use_log")), config.LOG_FLOOR_VALUE, rtol, atol, 0.0, extra)
        if not ok:
            self.v("streaming differs from compute_full at frame/coeff %r of %d frames: %s (N=%d, chunks %r, %s fl=%d fs=%d %s%s)" % (
                i, want.shape[0], detail, N, comp_lens[:20], info["kind"], fl, fs, info["style"], " kaldi" if info["kaldi"] else ""), check="value",
                frame=None if i is None else i[0], n_frames=int(want.shape[0]), **info)
        if ok and is_stft and x.dtype == np.float64 and want.shape[0]:
            # an STFT frame is a function of its own samples, however they arrived: each frame agrees to rounding at its own level,
            # whatever the level of the rest of the recording (the matrix-wide scale above would hide a quiet frame next to loud ones)
            g64, w64 = got.astype(np.float64), np.asarray(want, dtype=np.float64)
            if a.get("use_log"):
                g64, w64 = np.exp(g64), np.exp(w64)
            row = np.maximum(np.max(np.abs(w64), axis=1, keepdims=True), config.LOG_FLOOR_VALUE if a.get("use_log") else 0.0)
            bad = np.abs(g64 - w64) > 1e-8 * row + 1e-290
            self.rec.count("stft_frames_compared_at_their_own_level", int(want.shape[0]))
            if np.any(bad):
                k = tuple(int(v) for v in np.argwhere(bad)[0])
                self.v("streaming differs from compute_full at frame/coeff %r relative to that frame's own level: got %r want %r (N=%d, chunks %r, stft fl=%d fs=%d %s%s)" % (
                    k, float(got[k]), float(want[k]), N, comp_lens[:20], fl, fs, info["style"], " kaldi" if info["kaldi"] else ""), check="value", frame=k[0],
                    n_frames=int(want.shape[0]), **info)
        nonempty = sum(1 for n in comp_lens if n)
        if want.shape[0] >= 1 and nonempty >= 2:
            self.rec.nt((repr(self.case.get("cfg") if self.case else None), N, tuple(comp_lens), str(x.dtype)))
        if 0 in comp_lens:
            self.rec.count("utterances_with_empty_chunks")


# ---------------------------------------------------------------- workloads
def tiny_configs(tier, seed):
    """deterministic list of tiny configurations for the exhaustive core"""
    rng = rng_for(seed, "C01", 424242)
    cfgs = []
    tri = {"name": "tri", "scaling_function": "mel", "num_filts": 2, "sampling_rate": 1000, "low_hz": 20.0, "high_hz": 480.0}
    gab = {"name": "gabor", "scaling_function": "mel", "num_filts": 2, "sampling_rate": 1000, "low_hz": 0.0, "high_hz": 500.0}
    gam = {"name": "gammatone", "scaling_function": "mel", "num_filts": 2, "sampling_rate": 1000, "low_hz": 0.0, "high_hz": 500.0, "order": 2}
    gamc = {"name": "gammatone", "scaling_function": "mel", "num_filts": 1, "sampling_rate": 1000, "low_hz": 0.0, "high_hz": 500.0, "order": 4, "max_centered": True}
    gab1 = {"name": "gabor", "scaling_function": "bark", "num_filts": 1, "sampling_rate": 1000, "low_hz": 50.0, "high_hz": 450.0, "erb": True}
    geo = [(fl, fs) for fl in (1, 2, 3, 4, 5, 6, 7, 8) for fs in (1, 2, 3, 4, 5) if fs <= fl]
    styles = [("causal", False), ("centered", False), ("centered", True)]
    stft = []
    for (fl, fs) in geo:
        for (style, kaldi) in styles:
            stft.append((fl, fs, style, kaldi))
    order = rng.permutation(len(stft))
    n_stft = 8 if tier == "quick" else 32
    for j in order[:n_stft]:
        fl, fs, style, kaldi = stft[int(j)]
        cfgs.append({"name": "stft", "bank": tri if j % 2 else gab, "frame_length_ms": gen.ms_for(fl, 1000), "frame_shift_ms": gen.ms_for(fs, 1000),
                     "frame_style": style, "kaldi_shift": kaldi, "include_energy": bool(j % 3 == 0), "pad_to_nearest_power_of_two": bool(j % 2),
                     "window_function": "hann" if j % 4 else "gamma", "use_log": bool(j % 5 == 0), "use_power": bool(j % 2)})
    si = []
    for b in (gab, gam, gamc, gab1):
        for style in ("causal", "centered"):
            for fs in (1, 2, 3):
                for pad in (True, False):
                    si.append((b, style, fs, pad))
    order = rng.permutation(len(si))
    n_si = 4 if tier == "quick" else 16
    for j in order[:n_si]:
        b, style, fs, pad = si[int(j)]
        cfgs.append({"name": "si", "bank": b, "frame_shift_ms": gen.ms_for(fs, 1000), "frame_style": style, "include_energy": bool(j % 2),
                     "pad_to_nearest_power_of_two": pad, "window_function": "hann" if j % 3 else "gamma", "use_log": bool(j % 4 == 0), "use_power": bool(j % 2)})
    return cfgs


def stream(comp, x, parts, reuse=False):
    """reuse=True: the caller reads every chunk into one buffer of its own and refills it after each call
    (what reading from a sound device or a file in blocks looks like); the computer must not depend on it"""
    pos = 0
    if reuse and parts and max(parts) > 0:
        buf = np.empty(max(parts), dtype=x.dtype)
        junk = np.finfo(x.dtype).max / 4 if np.issubdtype(x.dtype, np.floating) else 7
        for n in parts:
            buf[:n] = x[pos:pos + n]
            comp.compute_chunk(buf[:n])
            buf[:] = junk
            pos += n
        comp.finalize()
        return
    for n in parts:
        comp.compute_chunk(x[pos:pos + n])
        pos += n
    comp.finalize()


def boundary_lengths(rng, comp, width=None):
    fl, fs = comp.frame_length, comp.frame_shift
    L = {0, 1, fs // 2 - 1, fs // 2, fs // 2 + 1, fl // 2, fl // 2 + 1, fl // 2 + 2, fl - 1, fl, fl + 1}
    for k in (1, 2, 3, 5):
        L |= {k * fs - 1, k * fs, k * fs + 1}
    for j in range(4):
        for r in range(min(fs, 6)):
            L.add(fl + j * fs + r)
    if width:
        L |= {width - 1, width, width + 1, 2 * width, 2 * width + 1, 3 * width - 1}
    return sorted(l for l in L if l >= 0)


def run_case(case, rec, mon=None):
    from pydrobert.speech import compute as C

    own = mon is None
    if own:
        monitor.detach_all()
        mon = StreamMonitor(rec)
        mon.attach()
        sanit.install([C])
    mon.case = case
    cfg = case["cfg"]
    try:
        comp = gen.build(cfg)
    except Exception as e:
        rec.count("configurations_not_constructible")
        rec.note("not constructible: %r %r" % (e, cfg))
        if own:
            sanit.uninstall([C]); monitor.detach_all()
        return
    if not scope_ok(comp) or (comp.frame_length > 400 and not case.get("realistic")):
        rec.count("configurations_out_of_scope")
        if own:
            sanit.uninstall([C]); monitor.detach_all()
        return
    rng = rng_for(case["seed"], "C01", case.get("idx", 0), 7)
    kind = case["kind"]
    if kind == "exhaustive":
        for N in case["Ns"]:
            x = gen.signal(rng, N, "noise")
            x.setflags(write=False)
            for parts in gen.all_compositions(N):
                stream(comp, x, parts)
                rec.count("exhaustive_runs")
                if N <= case["empty_upto"]:
                    for pos in range(len(parts) + 1):
                        stream(comp, x, parts[:pos] + [0] + parts[pos:])
                        rec.count("exhaustive_runs_with_inserted_empty_chunk")
        rec.sample({"kind": kind, "cfg": cfg, "Ns": case["Ns"], "compositions_per_N": "all 2^(N-1)"})
    elif kind == "boundary":
        inf = compmon.info(comp)
        width = inf["ir_widths"][0] if inf and len(inf["ir_widths"]) == 1 else None
        if width and width > 700 and not case.get("realistic"):
            rec.count("configurations_skipped_size")
        else:
            Ls = boundary_lengths(rng, comp, width)
            pick = list(rng.choice(Ls, size=min(case["n_lengths"], len(Ls)), replace=False))
            for jn, N in enumerate(pick):
                dt = np.float32 if rng.random() < 0.15 else np.float64
                x = gen.signal(rng, int(N), None, dt, views=True)
                if case["idx"] % 4 == 1 and jn == int(np.argmax(pick)):
                    # 120 dB of dynamic range within one recording (a loud passage, a click), also within one chunk
                    x = gen.signal(rng, int(N), ("loud_then_quiet", "quiet_then_loud", "click")[(case["idx"] // 4) % 3], np.float64)
                    rec.count("recordings_with_120dB_dynamic_range")
                x.setflags(write=False)
                for j in range(case["n_comps"]):
                    parts = gen.composition(rng, int(N))
                    try:
                        if j % 3 == 2:
                            with monitor.strict_settings():
                                stream(comp, x, parts)
                            rec.count("streams_under_strict_process_settings")
                        else:
                            stream(comp, x, parts, reuse=(j % 3 == 1))
                        if j % 3 == 1:
                            rec.count("streams_through_a_refilled_caller_buffer")
                    except Exception:
                        try:
                            comp.finalize()
                        except Exception:
                            pass
            if isinstance(comp, C.ShortTimeFourierTransformFrameComputer) and case["idx"] % 3 == 0:
                # directed: the same configuration with the energy coefficient, on a recording with 120 dB of dynamic range, streamed
                # in chunks of many frames (the level changes inside a chunk)
                try:
                    ce = gen.build(dict(cfg, include_energy=True))
                    xd = gen.signal(rng, 12 * int(ce.frame_length) + 7, ("loud_then_quiet", "click", "quiet_then_loud")[(case["idx"] // 3) % 3], np.float64)
                    xd.setflags(write=False)
                    for parts in ([len(xd)], [len(xd) // 2 + 3, len(xd) - len(xd) // 2 - 3], [5 * int(ce.frame_length), len(xd) - 5 * int(ce.frame_length)]):
                        stream(ce, xd, parts)
                    rec.count("streams_of_many_frame_chunks_over_120dB_of_dynamic_range")
                except Exception as e:
                    rec.note("dynamic-range stream raised %r" % (e,))
            if case["idx"] % 2 == 1:
                # compute_full handed the recording as the caller has it - one channel of an interleaved recording, every third sample of
                # a longer one, read backwards - at lengths with and without padding on either side: the same features as from a contiguous
                # copy (which is what the streamed chunks amount to)
                fl_, fs_ = int(comp.frame_length), int(comp.frame_shift)
                for N in sorted({3 * fl_ + 1, 2 * fl_ + fs_, fl_ + 4 * fs_ + (fl_ - fs_) % max(fs_, 1), 5 * fs_ + fl_, 84 * max(1, fs_ // 8) + fl_}):
                    base = gen.signal(rng, int(N), "noise", np.float64)
                    lay = (case["idx"] // 2 + N) % 3
                    if lay == 0:
                        big = np.zeros((N, 2)); big[:, 0] = base; view = big[:, 0]
                    elif lay == 1:
                        big = np.zeros(3 * N); big[::3] = base; view = big[::3]
                    else:
                        big = np.array(base[::-1]); view = big[::-1]
                    try:
                        with monitor.quiet():
                            a_ = np.asarray(comp.compute_full(view))
                            b_ = np.asarray(comp.compute_full(np.ascontiguousarray(base)))
                        rec.ev()
                        rec.count("compute_full_on_non_contiguous_recordings")
                        if a_.shape != b_.shape or not np.allclose(a_, b_, rtol=1e-9, atol=1e-12, equal_nan=True):
                            mon.v("compute_full of a non-contiguous recording (layout %d, N=%d) differs from compute_full of its contiguous copy" % (lay, N), check="value",
                                  kind="stft" if isinstance(comp, C.ShortTimeFourierTransformFrameComputer) else "si", N=int(N), fl=fl_, fs=fs_, style=comp.frame_style)
                    except Exception as e:
                        rec.note("compute_full on a view raised %r" % (e,))
            # always: a refused (integer) chunk before and in the middle of an ordinary utterance
            x = gen.signal(rng, int(comp.frame_length + 2 * comp.frame_shift + 3), "noise")
            x.setflags(write=False)
            parts = [p for p in gen.composition(rng, len(x)) if p] or [len(x)]
            pos = 0
            try:
                for k, n in enumerate(parts):
                    if k in (0, len(parts) // 2) and isinstance(comp, C.ShortIntegrationFrameComputer):  # (integer chunks are only specified for this class: refused)
                        try:
                            comp.compute_chunk(np.arange(3 + k, dtype=np.int32))
                            rec.count("integer_chunks_accepted")
                        except ValueError:
                            pass
                    comp.compute_chunk(x[pos:pos + n])
                    pos += n
                comp.finalize()
            except Exception:
                try:
                    comp.finalize()
                except Exception:
                    pass
            # always: an utterance of a narrow floating type, then one of float64 in small chunks (whatever is carried from
            # chunk to chunk is carried in full precision)
            for dt_, N in ((np.float16, comp.frame_length + 2 * comp.frame_shift), (np.float64, 2 * comp.frame_length + 3 * comp.frame_shift + 1)):
                x = gen.signal(rng, int(N), "noise", dt_)
                x.setflags(write=False)
                parts = [1, 2] * (int(N) // 3) + [int(N) - 3 * (int(N) // 3)]
                try:
                    stream(comp, x, [p_ for p_ in parts if p_])
                except Exception:
                    try:
                        comp.finalize()
                    except Exception:
                        pass
            rec.count("narrow_then_float64_utterance_pairs")
            # always: an utterance too short for a frame (but not empty) right before an ordinary one, on the same object
            fl_, fs_ = comp.frame_length, comp.frame_shift
            for N1 in sorted({1, max(1, fs_ // 2 - 1)}):
                for N in (N1, fl_ + 3 * fs_ + 1):
                    x = gen.signal(rng, int(N), "noise_big" if N == N1 else "noise")
                    x.setflags(write=False)
                    try:
                        stream(comp, x, gen.composition(rng, int(N)))
                    except Exception:
                        try:
                            comp.finalize()
                        except Exception:
                            pass
                rec.count("too_short_then_ordinary_utterance_pairs")
            rec.sample({"kind": kind, "cfg": cfg, "lengths": [int(n) for n in pick], "last_composition": parts[:30]})
    elif kind == "interleave":
        # two computers built from equal configurations (one per channel, say) and fed alternately: each stream
        # must come out as if it were alone.  The driver's calls are not observed by the hooks (they would file
        # both streams under whatever object identity the factory returns); each logical stream is judged.
        other = gen.build(cfg)
        fl = comp.frame_length
        for _ in range(case["n"]):
            Na, Nb = int(rng.integers(fl, 4 * fl + 9)), int(rng.integers(fl // 2, 4 * fl + 9))
            xs = [gen.signal(rng, Na, "noise"), gen.signal(rng, Nb, None)]
            parts = [gen.composition(rng, Na), gen.composition(rng, Nb)]
            comps, hs, pos, idx = [comp, other], [Hist(), Hist()], [0, 0], [0, 0]
            fin = [None, None]
            with monitor.quiet():
                while idx[0] < len(parts[0]) or idx[1] < len(parts[1]):
                    w = int(rng.integers(2))
                    if idx[w] >= len(parts[w]):
                        w = 1 - w
                    n = parts[w][idx[w]]
                    ch = np.array(xs[w][pos[w]:pos[w] + n])
                    try:
                        hs[w].outs.append(np.asarray(comps[w].compute_chunk(ch)))
                        hs[w].ins.append(ch)
                    except Exception as e:
                        hs[w].error = e
                    pos[w] += n
                    idx[w] += 1
                for w in (0, 1):
                    try:
                        fin[w] = (None, comps[w].finalize())
                    except Exception as e:
                        fin[w] = (e, None)
            for w in (0, 1):
                if hs[w].error is not None:
                    mon.v("compute_chunk raised %r on one of two alternately fed computers of equal configuration" % (hs[w].error,), check="interleave_raise")
                else:
                    mon.judge(comps[w], hs[w], fin[w][0], fin[w][1])
            rec.count("interleaved_stream_pairs")
        rec.sample({"kind": kind, "cfg": cfg})
    elif kind == "fbf":
        fl, fs = comp.frame_length, comp.frame_shift
        for N in case["Ns"]:
            x = gen.signal(rng, int(N), None, views=True)
            x.setflags(write=False)
            outs = []
            for cs in (1, 2, 3, 7, fs, fl, fl + 1, 1024):
                try:
                    outs.append((cs, C.frame_by_frame_calculation(comp, x, cs)))
                except Exception as e:
                    mon.v("frame_by_frame_calculation(chunk_size=%d) raised %r (N=%d)" % (cs, e, N), check="fbf_raise", N=int(N), chunk_size=cs)
                rec.count("fbf_calls")
            for cs, o in outs[1:]:
                if o.shape != outs[0][1].shape:
                    mon.v("frame_by_frame_calculation: chunk_size %d gives shape %r, chunk_size 1 gives %r" % (cs, o.shape, outs[0][1].shape), check="fbf_shape", N=int(N), chunk_size=cs)
        rec.sample({"kind": kind, "cfg": cfg, "Ns": [int(n) for n in case["Ns"]]})
    if own:
        monitor.report(rec)
        sanit.uninstall([C])
        monitor.detach_all()


def plan(tier, seed):
    q = tier == "quick"
    Nmax = 12 if q else 15
    specs = []
    for ci, cfg in enumerate(tiny_configs(tier, seed)):
        # the 2^(N-1) compositions of the largest N dominate: put large N in their own shards
        if q:
            groups = [list(range(0, 10)), [10], [11], [12]]
        else:
            groups = [list(range(0, 12)), [12], [13], [14], [15]]
        for g in groups:
            specs.append({"cases": [{"kind": "exhaustive", "cfg": cfg, "Ns": g, "empty_upto": 6 if q else 8, "seed": seed, "idx": ci}]})
    nb = 48 if q else 480
    per = 6 if q else 20
    for s in range(0, nb, per):
        cases = []
        for i in range(s, min(nb, s + per)):
            rng = rng_for(seed, "C01", i, 0)
            if i % 3 == 2:
                from .C03 import make_cfg as si_make

                cfg = si_make(seed, 100000 + i)
            else:
                cfg = gen.stft_cfg(rng)
            cases.append({"kind": "boundary", "cfg": cfg, "n_lengths": 10 if q else 16, "n_comps": 3 if q else 5, "seed": seed, "idx": i})
            if i % 4 == 0:
                cases.append({"kind": "fbf", "cfg": cfg, "Ns": [0, 1, 9, 40, 133], "seed": seed, "idx": i})
            if i % 4 == 1:
                cases.append({"kind": "interleave", "cfg": cfg, "n": 3, "seed": seed, "idx": i})
        specs.append({"cases": cases})
    for j, cfg in enumerate(gen.realistic_cfgs()):
        if q and cfg["name"] == "si":
            continue
        specs.append({"cases": [{"kind": "boundary", "cfg": cfg, "n_lengths": 4 if q else 10, "n_comps": 2 if q else 4, "seed": seed, "idx": 10 ** 6 + j, "realistic": True}]})
    return specs


def run_shard(spec, rec):
    from pydrobert.speech import compute as C

    mon = StreamMonitor(rec)
    mon.attach()
    sanit.install([C], float_poison=float("nan") if (spec["cases"][0].get("idx", 0) % 2 == 0) else 1e300)
    try:
        for case in spec["cases"]:
            run_case(case, rec, mon)
    finally:
        sanit.uninstall([C])
    rec.count("sanitizer_np_empty_intercepted", sanit.COUNTS["empty"])
    monitor.report(rec)
    monitor.detach_all()


def finish(rec):
    monitor.require(rec, ["ShortTimeFourierTransformFrameComputer.compute_chunk", "ShortTimeFourierTransformFrameComputer.finalize",
                          "ShortIntegrationFrameComputer.compute_chunk", "ShortIntegrationFrameComputer.finalize"])
    for k in ("exhaustive_runs", "exhaustive_runs_with_inserted_empty_chunk", "streamed_utterances_stft", "streamed_utterances_si", "fbf_calls",
              "stft_lengths_between_half_shift_and_half_frame", "causal_tail_padding_exceeds_remainder", "utterances_with_empty_chunks"):
        if not rec.counters[k]:
            rec.inconc("class %s never observed" % k)
    if not rec.counters["sanitizer_np_empty_intercepted"]:
        rec.note("poison-fill sanitizer intercepted no np.empty call: sanitizer sub-verdict inconclusive")
        rec.extra["sanitizer"] = {"verdict": "inconclusive: no np.empty interception"}
    else:
        rec.extra["sanitizer"] = {"verdict": "no poison value reached an API-visible result", "np_empty_intercepted": int(rec.counters["sanitizer_np_empty_intercepted"])}


def classify(w):
    # D24: kaldi_shift, frame_shift 1, even frame length, N == frame_length/2: the first streamed frame needs
    # (fl+1)//2 + fs//2 = fl/2 samples, compute_full needs fl//2 + 1
    if w.get("check") == "frame_count" and w.get("kind") == "stft" and w.get("kaldi") and w.get("style") == "centered" and w.get("fs") == 1 \
            and w.get("fl", 1) % 2 == 0 and w.get("N") == w.get("fl", 0) // 2 and w.get("want_frames") == 0:
        return "kaldi-first-frame-one-sample-early"
    return None
