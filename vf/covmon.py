"""Anchor coverage through sys.monitoring (Python 3.12).

LINE events are enabled globally; the callback records (file, line) for files under the
repository's source root and returns DISABLE, so every location fires at most once per
process - the cost is negligible.  The parent turns the union over all shards into
lines-hit / lines-total per anchored file and per function, so that evidence shows which
parts of the code a property is anchored in were actually executed under the monitors.
"""
import os
import sys

HIT = set()
_ON = {"tool": None}


def start(srcroot):
    mon = getattr(sys, "monitoring", None)
    if mon is None:
        return False
    tool = mon.PROFILER_ID
    try:
        mon.use_tool_id(tool, "vf-anchor-coverage")
    except ValueError:
        return False
    srcroot = os.path.abspath(srcroot)

    def on_line(code, line):
        fn = code.co_filename
        if fn.startswith(srcroot):
            HIT.add((fn[len(srcroot) + 1:], line))
        return mon.DISABLE

    mon.register_callback(tool, mon.events.LINE, on_line)
    mon.set_events(tool, mon.events.LINE)
    _ON["tool"] = tool
    return True


def stop():
    mon = getattr(sys, "monitoring", None)
    if mon is None or _ON["tool"] is None:
        return
    mon.set_events(_ON["tool"], 0)
    mon.register_callback(_ON["tool"], mon.events.LINE, None)
    mon.free_tool_id(_ON["tool"])
    _ON["tool"] = None


def hits_by_file():
    out = {}
    for fn, line in HIT:
        out.setdefault(fn, []).append(line)
    return {k: sorted(v) for k, v in out.items()}


def _functions(path):
    """{qualname: set(executable lines)} for every function/method of a source file"""
    src = open(path).read()
    top = compile(src, path, "exec")
    out = {}

    def walk(code, prefix):
        for const in code.co_consts:
            if hasattr(const, "co_code"):
                q = (prefix + "." if prefix else "") + const.co_name
                lines = {l for (_, _, l) in const.co_lines() if l is not None and l != const.co_firstlineno}
                if lines:
                    out[q] = out.get(q, set()) | lines
                walk(const, q)

    walk(top, "")
    return out


def summarise(hits, srcroot, files):
    """hits: {relative file: [lines]} (union over shards); files: anchored files relative to the repository root"""
    res = {}
    for f in files:
        rel = f[len("src/"):] if f.startswith("src/") else f
        path = os.path.join(srcroot, rel)
        if not os.path.exists(path):
            continue
        got = set(hits.get(rel, []))
        funcs = _functions(path)
        total = set().union(*funcs.values()) if funcs else set()
        never = sorted(q for q, ls in funcs.items() if not (ls & got))
        partial = sorted(((q, len(ls & got), len(ls)) for q, ls in funcs.items() if (ls & got) and len(ls - got) > 0), key=lambda t: t[1] - t[2])
        res[f] = {
            "lines_hit": len(total & got), "lines_total": len(total),
            "functions_entered": len(funcs) - len(never), "functions_total": len(funcs),
            "functions_never_entered": never[:60],
            "least_covered_entered_functions": ["%s %d/%d" % t for t in partial[:25]],
        }
    return res
