"""Seeded filter-bank configurations for C05-C07 (wider than gen.bank_cfg: realistic rates,
up to 40 filters, every flag), plus the independent layout oracle."""
import math

import numpy as np

from .oracle import scales_ref as SR

RATES = [2000, 4000, 8000, 11025, 16000, 22050, 44100, 7999]
CLASSES = ["tri", "fbank", "gabor", "gammatone"]


def scale_cfg(rng):
    k = int(rng.integers(4))
    if k == 0:
        return "mel"
    if k == 1:
        return "bark"
    if k == 2:
        return {"name": "linear", "low_hz": float(rng.uniform(0, 50)), "slope_hz": float(rng.uniform(0.1, 3))}
    return {"name": "octave", "low_hz": float(rng.uniform(5, 100))}


def scale_fns(sc):
    if isinstance(sc, str):
        return SR.ref_pair(sc, {})
    params = {k: v for k, v in sc.items() if k != "name"}
    return SR.ref_pair(sc["name"], params)


def bank_cfg(rng, kind=None, max_filts=40, gammatone_scope_c07=False):
    rate = int(rng.choice(RATES))
    frac_rate = False
    kind = kind or str(rng.choice(CLASSES))
    nf = int(rng.integers(1, max_filts + 1))
    if rng.random() < 0.03:
        nf = int(rng.choice([100, 257]))  # extreme but valid
    sc = "mel" if kind == "fbank" else scale_cfg(rng)
    lo = 0.0 if rng.random() < 0.15 else float(rng.uniform(0, rate / 4))
    if isinstance(sc, dict) and sc["name"] == "octave":
        lo = max(lo, sc["low_hz"])
    if rng.random() < 0.7 or (rate % 2 and kind != "tri"):  # (only the triangular bank documents its default at an odd rate: the Nyquist frequency itself)
        hi = float(rng.uniform(lo + rate / 16, rate // 2))
        if rng.random() < 0.15:
            hi = float(rate // 2)
    else:
        hi = None
    if kind == "tri" and rng.random() < 0.1:
        # inside the documented 1 Hz leeway above the Nyquist frequency: accepted, and the range ends at Nyquist
        hi = rate / 2 + float(rng.choice([1.0, 0.5, float(rng.uniform(0, 1))]))
    cfg = {"name": kind, "num_filts": nf, "sampling_rate": rate, "low_hz": lo, "high_hz": hi}
    if hi is not None and hi < rate // 2 - 2 and rate % 2 == 0 and rng.random() < 0.06:
        # a sampling rate that is no whole number (44100 / 8, a resampled recording), as a Python float or a NumPy one
        cfg["sampling_rate"] = rate + float(rng.choice([0.5, 0.25, 0.75]))
        frac_rate = True
    if kind != "fbank":
        cfg["scaling_function"] = sc
    if kind in ("tri", "fbank"):
        cfg["analytic"] = bool(rng.integers(2))
    elif kind == "gabor":
        cfg["scale_l2_norm"] = bool(rng.integers(2))
        cfg["erb"] = bool(rng.integers(2))
    else:
        cfg["order"] = int(rng.integers(3, 9)) if gammatone_scope_c07 else int(rng.integers(1, 9))
        if rng.random() < 0.04:
            cfg["order"] = int(rng.choice([12, 20, 22, 30]))
        cfg["max_centered"] = bool(rng.integers(2))
        cfg["scale_l2_norm"] = False if gammatone_scope_c07 else bool(rng.random() < 0.4)
        cfg["erb"] = bool(rng.integers(2))
    if frac_rate:
        if rng.random() < 0.6:
            cfg["_kinds"] = {"sampling_rate": "np.float64"}
        return cfg
    if rng.random() < 0.25:
        # the same numbers handed over as other numeric types (applied by gen.build_bank; the dict itself stays JSON-able)
        if rng.random() < 0.6:
            cfg["low_hz"] = float(round(cfg["low_hz"]))
            if cfg["high_hz"] is not None:
                cfg["high_hz"] = float(max(round(cfg["high_hz"]), cfg["low_hz"] + rate // 16))
                cfg["high_hz"] = float(min(cfg["high_hz"], rate // 2))
        kinds = {"num_filts": str(rng.choice(["np.int64", "np.int32"])), "sampling_rate": str(rng.choice(["float", "np.int64", "np.float64"]))}
        for k in ("low_hz", "high_hz"):
            if cfg[k] is not None:
                kinds[k] = str(rng.choice(["int", "np.int64", "np.int32", "np.int16", "np.uint16"])) if float(cfg[k]).is_integer() else "np.float64"
        # ... and the flags as NumPy booleans or as 0 / 1 (no further random draws: tied to the choice above)
        for k in ("analytic", "erb", "scale_l2_norm", "max_centered"):
            if k in cfg:
                kinds[k] = "np.bool_" if kinds["num_filts"] == "np.int64" else "int"
        cfg["_kinds"] = kinds
    return cfg


def layout(cfg):
    """Independent layout from the documentation: (vertices | None, edges | None, centres)."""
    sc = "mel" if cfg["name"] == "fbank" else cfg["scaling_function"]
    fwd, inv = scale_fns(sc)
    rate = cfg["sampling_rate"]
    lo = cfg["low_hz"]
    hi = cfg["high_hz"] if cfg["high_hz"] is not None else rate / 2  # "the default is the Nyquist" (even rates only)
    if cfg["name"] == "tri":
        hi = min(hi, rate / 2)
    nf = cfg["num_filts"]
    s_lo, s_hi = fwd(lo), fwd(hi)
    d = (s_hi - s_lo) / (nf + 1)
    if cfg["name"] in ("tri", "fbank"):
        verts = [inv(s_lo + d * k) for k in range(nf + 2)]
        return verts, None, verts[1:-1]
    edges = [inv(s_lo + d * (k + 0.5)) for k in range(nf + 1)]
    return None, edges, [(a + b) / 2 for a, b in zip(edges[:-1], edges[1:])]


def triangle(cfg, verts, i, hz):
    """documented response of filter i at a frequency hz >= 0 (triangle in Hz; sqrt of a triangle in mel for Fbank)"""
    l, m, r = verts[i], verts[i + 1], verts[i + 2]
    if cfg["name"] == "fbank":
        hz, l, m, r = SR.mel_fwd(hz), SR.mel_fwd(l), SR.mel_fwd(m), SR.mel_fwd(r)
    if hz < l or hz > r:
        return 0.0
    v = (hz - l) / (m - l) if hz <= m else (r - hz) / (r - m)
    v = min(max(v, 0.0), 1.0)
    return math.sqrt(v) if cfg["name"] == "fbank" else v
