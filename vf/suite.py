"""Run (part of) the repository's test-suite under a property's monitors and merge what
they observed into the shard's recorder (thorough tiers only)."""
import os
import subprocess
import sys
import tempfile

from .rec import Recorder


def run(pid, spec, rec):
    repo = os.environ.get("VERIF_REPO", "/repo")
    verif = os.path.dirname(os.path.dirname(os.path.abspath(__file__)))
    fd, out = tempfile.mkstemp(prefix="vfsuite_", suffix=".pkl")
    os.close(fd)
    os.unlink(out)
    env = dict(os.environ, VF_PLUGIN_PROP=pid, VF_PLUGIN_OUT=out, PYTHONPATH="%s/src:%s" % (repo, verif))
    files = [os.path.join(repo, f) for f in spec["suite"]]
    cmd = [sys.executable, "-m", "pytest", "-q", "-p", "no:cacheprovider", "-p", "vf.pytest_plugin", "--timeout=1800", "-x" if False else "-q"] + files
    try:
        p = subprocess.run(cmd, cwd=repo, env=env, capture_output=True, text=True, timeout=spec.get("timeout", 3000))
        tail = (p.stdout or "").strip().splitlines()[-1:] or [""]
    except subprocess.TimeoutExpired:
        rec.inconc("repository test-suite workload timed out")
        return
    if not os.path.exists(out):
        rec.inconc("repository test-suite workload produced no monitor record (%s)" % tail[0][:200])
        return
    sub = Recorder.load(out)
    os.unlink(out)
    n = sub.evaluations
    rec.merge(sub)
    rec.count("suite_runs")
    rec.note("suite workload %s: %s; %d monitor evaluations" % (spec["suite"], tail[0][:120], n))
