"""pytest plugin: run the repository's own tests with a property's monitors attached.

    VF_PLUGIN_PROP=C02 VF_PLUGIN_OUT=/path/rec.pkl  python -m pytest -p vf.pytest_plugin tests/test_compute.py

The tests are an *additional workload*: their own pass/fail outcome is ignored here (the
baseline is checked separately); what counts is what the monitors observed.
"""
import os

from . import monitor
from .rec import Recorder

_STATE = {}


def _monitors(pid, rec):
    if pid == "C02":
        from .props.C02 import StftMonitor
        return [StftMonitor(rec)]
    if pid == "C03":
        from .props.C03 import SiMonitor
        return [SiMonitor(rec)]
    if pid == "C19":
        from .props.C19 import ScaleMonitor
        return [ScaleMonitor(rec)]
    import importlib

    return [importlib.import_module("vf.props." + pid).Mon(rec)]


def pytest_sessionstart(session):
    pid = os.environ.get("VF_PLUGIN_PROP")
    if not pid:
        return
    rec = Recorder(pid, "thorough", int(os.environ.get("VERIF_SEED", "0")), -2)
    import importlib

    rec.classifier = getattr(importlib.import_module("vf.props." + pid), "classify", None)
    mons = _monitors(pid, rec)
    for m in mons:
        m.case = {"kind": "repository-test-suite"}
        m.attach()
    _STATE.update(rec=rec, mons=mons, pid=pid)


def pytest_runtest_setup(item):
    for m in _STATE.get("mons", []):
        m.case = {"kind": "repository-test-suite", "test": item.nodeid}


def pytest_sessionfinish(session, exitstatus):
    rec = _STATE.get("rec")
    if rec is None:
        return
    for m in _STATE["mons"]:
        if hasattr(m, "check_trace"):
            m.check_trace()
        if hasattr(m, "worst"):
            rec.extra["worst_ratio_to_bound_in_suite"] = {"%s %s" % k: round(v, 4) for k, v in sorted(m.worst.items())}
    monitor.report(rec)
    # rename the counters so that suite observations are reported separately
    from collections import Counter

    rec.counters = Counter({"suite:" + k: v for k, v in rec.counters.items()})
    rec.counters["suite_evaluations"] = rec.evaluations
    rec.samples = []
    rec.dump(os.environ["VF_PLUGIN_OUT"])
    monitor.detach_all()
