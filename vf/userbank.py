"""A user-defined filter bank, written against the public abstract interface of
pydrobert.speech.filters.LinearFilterBank the way a user of the library would.

The library's own real banks (triangular, Fbank) have vertices inside [0, Nyquist], so their
responses on the 0 Hz and Nyquist bins are zero.  This one is real and zero-phase too, but its first
filter is a low-pass (non-zero at 0 Hz) and its last a high-pass (non-zero at Nyquist): the two DFT
bins that are their own mirror images carry response.  Registered under the alias "vfrealcos" so
that the alias factory, the computers and the torch conversion reach it like any other bank.
"""
import numpy as np

from pydrobert.speech.filters import LinearFilterBank


class RealCosineBank(LinearFilterBank):
    """num_filts raised-cosine lobes |H_i(f)| = 0.5 (1 + cos(pi (|f| - c_i) / w)) for ||f| - c_i| < w,
    centres c_i evenly spaced over [0, Nyquist] inclusive, half-width w = widen x centre spacing"""

    aliases = {"vfrealcos"}

    def __init__(self, num_filts=4, sampling_rate=8000, widen=1.5):
        self._n = int(num_filts)
        self._rate = sampling_rate
        nyq = sampling_rate / 2
        self._c = [nyq * i / max(1, self._n - 1) for i in range(self._n)] if self._n > 1 else [0.0]
        self._w = widen * nyq / max(1, self._n - 1)

    is_real = property(lambda self: True)
    is_analytic = property(lambda self: False)
    is_zero_phase = property(lambda self: True)
    num_filts = property(lambda self: self._n)
    sampling_rate = property(lambda self: self._rate)

    @property
    def supports_hz(self):
        nyq = self._rate / 2
        return tuple((max(0.0, c - self._w), min(nyq, c + self._w)) for c in self._c)

    @property
    def supports(self):
        t = int(np.ceil(4 * self._rate / self._w))
        return tuple((-t, t) for _ in self._c)

    def _half(self, i, width):
        k = np.arange(width // 2 + 1 if width % 2 == 0 else (width + 1) // 2)
        x = k * self._rate / width - self._c[i]
        return np.where(np.abs(x) < self._w, 0.5 * (1 + np.cos(np.pi * x / self._w)), 0.0)

    def get_frequency_response(self, filt_idx, width, half=False):
        h = self._half(filt_idx, width)
        if half:
            return h
        full = np.zeros(width)
        full[: len(h)] = h
        full[width - len(h) + 1 + (1 if width % 2 == 0 else 0):] = h[1: len(h) - (1 if width % 2 == 0 else 0)][::-1]
        return full

    def get_impulse_response(self, filt_idx, width):
        return np.real(np.fft.ifft(self.get_frequency_response(filt_idx, width)))

    def get_truncated_response(self, filt_idx, width):
        h = self._half(filt_idx, width)
        nz = np.nonzero(h)[0]
        if not len(nz):
            return 0, np.zeros(0)
        return int(nz[0]), h[nz[0]: nz[-1] + 1].copy()
