"""A user-defined filter bank, written against the public abstract interface of
pydrobert.speech.filters.LinearFilterBank the way a user of the library would.

The library's own real banks (triangular, Fbank) have vertices inside [0, Nyquist], so their
responses on the 0 Hz and Nyquist bins are zero.  This one is real and zero-phase too, but its first
filter is a low-pass (non-zero at 0 Hz) and its last a high-pass (non-zero at Nyquist): the two DFT
bins that are their own mirror images carry response.  Registered under the alias "vfrealcos" so
that the alias factory, the computers and the torch conversion reach it like any other bank.
"""
import numpy as np

from pydrobert.speech.filters import LinearFilterBank


class RealCosineBank(LinearFilterBank):
    """num_filts raised-cosine lobes |H_i(f)| = 0.5 (1 + cos(pi (|f| - c_i) / w)) for ||f| - c_i| < w,
    centres c_i evenly spaced over [0, Nyquist] inclusive, half-width w = widen x centre spacing"""

    aliases = {"vfrealcos"}

    def __init__(self, num_filts=4, sampling_rate=8000, widen=1.5):
        self._n = int(num_filts)
        self._rate = sampling_rate
        nyq = sampling_rate / 2
        self._c = [nyq * i / max(1, self._n - 1) for i in range(self._n)] if self._n > 1 else [0.0]
        self._w = widen * nyq / max(1, self._n - 1)

    is_real = property(lambda self: True)
    is_analytic = property(lambda self: False)
    is_zero_phase = property(lambda self: True)
    num_filts = property(lambda self: self._n)
    sampling_rate = property(lambda self: self._rate)

    @property
    def supports_hz(self):
        nyq = self._rate / 2
        return tuple((max(0.0, c - self._w), min(nyq, c + self._w)) for c in self._c)

    @property
    def supports(self):
        t = int(np.ceil(4 * self._rate / self._w))
        return tuple((-t, t) for _ in self._c)

    def _half(self, i, width):
        k = np.arange(width // 2 + 1 if width % 2 == 0 else (width + 1) // 2)
        x = k * self._rate / width - self._c[i]
        return np.where(np.abs(x) < self._w, 0.5 * (1 + np.cos(np.pi * x / self._w)), 0.0)

    def get_frequency_response(self, filt_idx, width, half=False):
        h = self._half(filt_idx, width)
        if half:
            return h
        full = np.zeros(width)
        full[: len(h)] = h
        full[width - len(h) + 1 + (1 if width % 2 == 0 else 0):] = h[1: len(h) - (1 if width % 2 == 0 else 0)][::-1]
        return full

    def get_impulse_response(self, filt_idx, width):
        return np.real(np.fft.ifft(self.get_frequency_response(filt_idx, width)))

    def get_truncated_response(self, filt_idx, width):
        h = self._half(filt_idx, width)
        nz = np.nonzero(h)[0]
        if not len(nz):
            return 0, np.zeros(0)
        return int(nz[0]), h[nz[0]: nz[-1] + 1].copy()


def user_computer_class():
    """A frame computer written against the public base class LinearFilterBankFrameComputer, the way the documentation
    allows: it hands `bank` (an object, an alias string or a mapping) to the base constructor and computes one frame for
    the whole signal - for every filter the energy of the signal passed through it (circular convolution with the
    filter's frequency response), preceded by the signal energy when include_energy.  Alias "vfband"."""
    import numpy as np
    from pydrobert.speech.compute import LinearFilterBankFrameComputer

    existing = [c for c in LinearFilterBankFrameComputer.__subclasses__() if c.__name__ == "WholeSignalBandEnergy"]
    if existing:
        return existing[0]

    class WholeSignalBandEnergy(LinearFilterBankFrameComputer):
        aliases = {"vfband"}

        def __init__(self, bank, include_energy=False):
            super().__init__(bank, include_energy)
            self._chunks = []

        frame_style = property(lambda self: "causal")
        sampling_rate = property(lambda self: self.bank.sampling_rate)
        frame_length = property(lambda self: 1)
        frame_length_ms = property(lambda self: 1000.0 / self.bank.sampling_rate)
        frame_shift = property(lambda self: 1)
        frame_shift_ms = property(lambda self: 1000.0 / self.bank.sampling_rate)
        started = property(lambda self: bool(self._chunks))

        def compute_chunk(self, chunk):
            self._chunks.append(np.array(chunk, dtype=np.float64))
            return np.empty((0, self.num_coeffs))

        def finalize(self):
            x = np.concatenate(self._chunks) if self._chunks else np.zeros(0)
            self._chunks = []
            if len(x) == 0:
                return np.empty((0, self.num_coeffs))
            X = np.fft.fft(x)
            out = [float(np.sum(x ** 2))] if self.includes_energy else []
            for i in range(self.bank.num_filts):
                out.append(float(np.sum(np.abs(X * self.bank.get_frequency_response(i, len(x))) ** 2)) / len(x))
            return np.array([out])

    _KEEP.append(WholeSignalBandEnergy)
    return WholeSignalBandEnergy


_KEEP = []


import math

from pydrobert.speech.scales import ScalingFunction
from pydrobert.speech.filters import WindowFunction


class SqrtScaling(ScalingFunction):
    """A user's scaling function, written against the documented interface (one frequency in, one scale value out; the
    `math` module, so it takes numbers, not arrays): s = sqrt(f + 100).  Alias "vfsqrt"."""

    aliases = {"vfsqrt"}

    def hertz_to_scale(self, hertz):
        return math.sqrt(hertz + 100.0)

    def scale_to_hertz(self, scale):
        return scale * scale - 100.0


from pydrobert.speech.filters import Fbank


class GainFbank(Fbank):
    """A user's variant of the library's Fbank: every filter at half the gain.  It overrides the two documented methods that
    describe a filter in the frequency domain and leaves the rest (impulse response, supports) to the base class.  Alias "vfgainfbank"."""

    aliases = {"vfgainfbank"}

    def get_frequency_response(self, filt_idx, width, half=False):
        return 0.5 * super().get_frequency_response(filt_idx, width, half)

    def get_truncated_response(self, filt_idx, width):
        start, res = super().get_truncated_response(filt_idx, width)
        return start, 0.5 * res


class WelchWindow(WindowFunction):
    """A user's window, written against the documented interface: the Welch (parabolic) window, scaled to unit sum.
    Alias "vfwelch"."""

    aliases = {"vfwelch"}

    def get_impulse_response(self, width):
        if width <= 0:
            return np.zeros(0)
        if width == 1:
            return np.ones(1)
        h = (width - 1) / 2
        w = 1.0 - ((np.arange(width) - h) / (h + 0.5)) ** 2
        return w / w.sum()
