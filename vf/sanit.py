"""Sanitizer analogues for NumPy code.

PoisonNumpy: a proxy installed as the module-global `np` of the repository's modules.  It
forwards everything to NumPy except `empty` / `empty_like`, whose results are pre-filled
with a poison value (NaN or a huge finite number for floats/complex, a byte pattern for
integers).  A result that contains the poison, or that differs between two poison
patterns, was computed from memory the code never initialised (MemorySanitizer analogue).

Read-only inputs and before/after digests (write sanitizer) are applied by the monitors
themselves.
"""
import contextlib

import numpy as _np

COUNTS = {"empty": 0, "empty_like": 0}
# the pattern in force is read at every np.empty call, so a monitor can give the object under
# test and its twin different poison (a stale read then shows as instance != twin)
PATTERN = {"f": None, "i": None}


def set_pattern(f=None, i=None):
    old = dict(PATTERN)
    PATTERN["f"], PATTERN["i"] = f, i
    return old


class PoisonNumpy:
    def __init__(self, real, float_poison=float("nan"), int_poison=0x5A):
        object.__setattr__(self, "_real", real)
        object.__setattr__(self, "_fp", float_poison)
        object.__setattr__(self, "_ip", int_poison)

    def __getattr__(self, name):
        return getattr(self._real, name)

    def __setattr__(self, name, value):
        setattr(self._real, name, value)

    def _poison(self, a):
        if a.size == 0:
            return a
        fp = self._fp if PATTERN["f"] is None else PATTERN["f"]
        ip = self._ip if PATTERN["i"] is None else PATTERN["i"]
        if a.dtype.kind in "fc":
            a.fill(fp)
        elif a.dtype.kind in "iu":
            a.view(_np.uint8).fill(ip) if a.flags.c_contiguous else a.fill(ip)
        elif a.dtype.kind == "b":
            a.fill(True)
        return a

    def empty(self, *args, **kwargs):
        COUNTS["empty"] += 1
        return self._poison(self._real.empty(*args, **kwargs))

    def empty_like(self, *args, **kwargs):
        COUNTS["empty_like"] += 1
        return self._poison(self._real.empty_like(*args, **kwargs))


@contextlib.contextmanager
def poisoned(modules, float_poison=float("nan"), int_poison=0x5A):
    """Install the proxy as `np` in each module for the duration of the block."""
    saved = []
    for m in modules:
        if getattr(m, "np", None) is not None and not isinstance(m.np, PoisonNumpy):
            saved.append((m, m.np))
            m.np = PoisonNumpy(m.np, float_poison, int_poison)
    try:
        yield
    finally:
        for m, real in saved:
            m.np = real


def install(modules, float_poison=float("nan"), int_poison=0x5A):
    for m in modules:
        if getattr(m, "np", None) is not None and not isinstance(m.np, PoisonNumpy):
            m.np = PoisonNumpy(m.np, float_poison, int_poison)


def uninstall(modules):
    for m in modules:
        if isinstance(getattr(m, "np", None), PoisonNumpy):
            m.np = m.np._real
