"""Independent model of the 'shorten' (v1/v2) lossless audio format as embedded in SPHERE
files, written from the format description (T. Robinson, 'SHORTEN: simple lossless and
near-lossless waveform compression', and the sph2pipe reader's documented stream layout):

  magic "ajkg", version byte, then a stream of MSB-first 32-bit words holding
  ulong header fields (ftype, nchan, blocksize, maxnlpc, nmean, nskip), then per block and
  channel a command uvar(cmd,2): DIFF0-3 / QLPC (uvar(resn,3) [uvar(nlpc,2) var(coef,5)*]
  Rice-coded residuals var(r,resn)), ZERO, BLOCKSIZE ulong, BITSHIFT uvar(.,2), QUIT.

Contains (i) a pure-int reference decoder, (ii) a bit writer and a *randomised encoder*
that per block picks the predictor, LPC order and coefficients, residual width, block size
changes and bit shifts.  Every generated stream is first decoded by the reference decoder
(self-check); a disagreement there is a harness fault, not a finding.
"""
import numpy as np

FN_DIFF0,FN_DIFF1,FN_DIFF2,FN_DIFF3,FN_QUIT,FN_BLOCKSIZE,FN_BITSHIFT,FN_QLPC,FN_ZERO=range(9)
TYPE_AU1,TYPE_S8,TYPE_U8,TYPE_S16HL,TYPE_U16HL,TYPE_S16LH,TYPE_U16LH,TYPE_ULAW,TYPE_AU2=range(9)
class BitReader:
    def __init__(self,b): self.b=b; self.pos=0  # bit position
    def bit(self):
        byte=self.pos>>3
        if byte>=len(self.b): raise EOFError
        v=(self.b[byte]>>(7-(self.pos&7)))&1; self.pos+=1; return v
    def uvar(self,n):
        r=0
        while not self.bit(): r+=1
        for _ in range(n): r=(r<<1)|self.bit()
        return r
    def ulong(self): return self.uvar(self.uvar(2))
    def var(self,n):
        u=self.uvar(n+1)
        return ~(u>>1) if u&1 else u>>1
def cdiv(a,b):
    q=abs(a)//abs(b); return q if (a>=0)==(b>0) else -q
def decode(stream):
    assert stream[:4]==b'ajkg'; version=stream[4]
    br=BitReader(stream[5:])
    ftype=br.ulong(); nchan=br.ulong(); blocksize=br.ulong(); maxnlpc=br.ulong(); nmean=br.ulong(); nskip=br.ulong()
    for _ in range(nskip): br.uvar(7)
    nwrap=max(3,maxnlpc)
    hist=[[0]*nwrap for _ in range(nchan)]
    init = 0
    if ftype==TYPE_U8: init=0x80
    elif ftype in (TYPE_U16HL,TYPE_U16LH): init=0x8000
    offs=[[init]*max(1,nmean) for _ in range(nchan)]
    out=[[] for _ in range(nchan)]
    bitshift=0; chan=0; lpcqoffset=(1<<5) if version>1 else 0
    cmds=[]
    while True:
        cmd=br.uvar(2); cmds.append(cmd)
        if cmd==FN_QUIT: break
        if cmd==FN_BLOCKSIZE: blocksize=br.ulong(); continue
        if cmd==FN_BITSHIFT: bitshift=br.uvar(2); continue
        if cmd not in (FN_ZERO,FN_DIFF0,FN_DIFF1,FN_DIFF2,FN_DIFF3,FN_QLPC): raise ValueError('bad cmd')
        if cmd!=FN_ZERO: resn=br.uvar(3)
        if nmean:
            s=(nmean//2 if version>=2 else 0)+sum(offs[chan][:nmean])
            coffset=cdiv(s,nmean)
            if version>=2: coffset>>=bitshift
        else: coffset=offs[chan][0]
        buf=list(hist[chan])  # last nwrap samples (shifted domain)
        if cmd==FN_ZERO: blk=[0]*blocksize
        else:
            if cmd==FN_QLPC:
                nlpc=br.uvar(2); q=[br.var(5) for _ in range(nlpc)]
                for j in range(1,nlpc+1): buf[-j]-=coffset
            blk=[]
            for i in range(blocksize):
                r=br.var(resn)
                if cmd==FN_DIFF0: v=r+coffset
                elif cmd==FN_DIFF1: v=r+buf[-1]
                elif cmd==FN_DIFF2: v=r+2*buf[-1]-buf[-2]
                elif cmd==FN_DIFF3: v=r+3*(buf[-1]-buf[-2])+buf[-3]
                else:
                    s=lpcqoffset
                    for j in range(nlpc): s+=q[j]*buf[-1-j]
                    v=r+(s>>5)
                buf.append(v); blk.append(v)
            if cmd==FN_QLPC and coffset:
                blk=[v+coffset for v in blk]
        if nmean>0:
            s=(blocksize//2 if version>=2 else 0)+sum(blk)
            offs[chan]=offs[chan][1:nmean]+[cdiv(s,blocksize)<<(bitshift if version>=2 else 0)]
        full=(hist[chan]+blk)
        hist[chan]=full[-nwrap:] if blocksize>=nwrap else full[-nwrap:]
        out[chan].extend(blk if ftype in (TYPE_AU1,TYPE_AU2) else [v<<bitshift for v in blk])
        if False: pass
        chan=(chan+1)%nchan
    return dict(version=version,ftype=ftype,nchan=nchan,blocksize=blocksize,maxnlpc=maxnlpc,nmean=nmean,nskip=nskip,cmds=cmds,bitshift=bitshift), out


class BitWriter:
    def __init__(self): self.bits=[]
    def bit(self,b): self.bits.append(b)
    def uvar(self,v,n):
        assert v>=0
        for _ in range(v>>n): self.bits.append(0)
        self.bits.append(1)
        for k in range(n-1,-1,-1): self.bits.append((v>>k)&1)
    def ulong(self,v):
        nb=max(v.bit_length(),0)
        self.uvar(nb,2); self.uvar(v,nb)
    def var(self,v,n):
        u=((~v)<<1)|1 if v<0 else v<<1
        self.uvar(u,n+1)
    def tobytes(self):
        bits=self.bits+[0]*((-len(self.bits))%32)
        out=bytearray()
        for i in range(0,len(bits),8):
            b=0
            for x in bits[i:i+8]: b=(b<<1)|x
            out.append(b)
        return bytes(out)
def encode(chans, rng, version=2, ftype=TYPE_S16LH, blocksize=16, maxnlpc=0, nmean=4, plan=None, inject=None):
    """chans: list (per channel) of lists of ints in the OUTPUT domain (PCM values; for AU types internal values).
    returns stream bytes and stats"""
    nchan=len(chans); n=len(chans[0])
    bw=BitWriter()
    for v in (ftype,nchan,blocksize,maxnlpc,nmean,0): bw.ulong(v)
    nwrap=max(3,maxnlpc)
    hist=[[0]*nwrap for _ in range(nchan)]
    offs=[[0]*max(1,nmean) for _ in range(nchan)]
    bitshift=0; lpcqoffset=32 if version>1 else 0
    pos=0; cur_bs=blocksize; stats={'cmds':{}, 'bitshifts':set(), 'nlpc':set(), 'blocksizes':set()}
    def stat(c): stats['cmds'][c]=stats['cmds'].get(c,0)+1
    def foreign():
        # inject = (where, code, payload bytes): a command code outside the format (9 is the "verbatim" chunk of later
        # shorten versions: a 5-bit-coded length and that many 8-bit-coded bytes), making the stream INVALID on purpose
        bw.uvar(inject[1],2)
        if inject[2] is not None:
            bw.uvar(len(inject[2]),5)
            for b in inject[2]: bw.uvar(b,8)
    nblk=0
    while pos<n:
        if inject and ((inject[0]=='start' and nblk==0) or (inject[0]=='mid' and nblk==1)): foreign()
        nblk+=1
        bs=min(cur_bs,n-pos)
        if rng.random()<0.15 and bs>nwrap: bs=int(rng.integers(max(1,nwrap),bs+1))   # shrink
        elif rng.random()<0.1 and cur_bs<blocksize: bs=min(int(rng.integers(cur_bs,blocksize+1)),n-pos)   # grow back (never beyond the initial size)
        if bs!=cur_bs:
            bw.uvar(FN_BLOCKSIZE,2); bw.ulong(bs); cur_bs=bs; stat(FN_BLOCKSIZE)
        # choose bitshift usable for this block across channels (PCM only)
        stats['blocksizes'].add(bs)
        for c in range(nchan):
            # the bit shift is decoder state: a conforming encoder may change it before any block, also between
            # the channel blocks of one frame (each channel can have its own number of trailing zero bits)
            if ftype in (TYPE_S16HL,TYPE_S16LH):
                per_channel = nchan>1 and rng.random()<0.5
                blkvals=list(chans[c][pos:pos+bs]) if per_channel else [v for ch in chans[c:] for v in ch[pos:pos+bs]]
                if c==0 or per_channel:
                    tz=min(((v & -v).bit_length()-1 if v else 15) for v in blkvals) if blkvals else 0
                    want=int(min(tz, rng.integers(0,4))) if rng.random()<0.5 else 0
                else:
                    want=bitshift
                # the shift in force must divide this channel's block
                mytz=min(((v & -v).bit_length()-1 if v else 15) for v in chans[c][pos:pos+bs]) if bs else 0
                want=min(want,mytz)
                if want!=bitshift:
                    bw.uvar(FN_BITSHIFT,2); bw.uvar(want,2); bitshift=want; stat(FN_BITSHIFT)
                    if c>0: stats['midframe_bitshift']=stats.get('midframe_bitshift',0)+1
            stats['bitshifts'].add(bitshift)
            blk=[v>>bitshift for v in chans[c][pos:pos+bs]] if ftype in (TYPE_S16HL,TYPE_S16LH) else list(chans[c][pos:pos+bs])
            if nmean:
                s=(nmean//2 if version>=2 else 0)+sum(offs[c][:nmean]); coffset=cdiv(s,nmean)
                if version>=2: coffset>>=bitshift
            else: coffset=offs[c][0]
            choices=[FN_DIFF0,FN_DIFF1,FN_DIFF2,FN_DIFF3]
            if maxnlpc and bs>=nwrap: choices+= [FN_QLPC]*3
            if all(v==0 for v in blk): choices=[FN_ZERO]*3+choices
            cmd=int(rng.choice(choices)); stat(cmd)
            bw.uvar(cmd,2)
            if cmd!=FN_ZERO:
                buf=list(hist[c]); res=[]
                if cmd==FN_QLPC:
                    nlpc=int(rng.integers(0,maxnlpc+1)); q=[int(rng.integers(-40,41)) for _ in range(nlpc)]
                    stats['nlpc'].add(nlpc)
                    for j in range(1,nlpc+1): buf[-j]-=coffset
                for v in blk:
                    if cmd==FN_DIFF0: pred=coffset; tv=v
                    elif cmd==FN_DIFF1: pred=buf[-1]; tv=v
                    elif cmd==FN_DIFF2: pred=2*buf[-1]-buf[-2]; tv=v
                    elif cmd==FN_DIFF3: pred=3*(buf[-1]-buf[-2])+buf[-3]; tv=v
                    else:
                        s2=lpcqoffset
                        for j in range(nlpc): s2+=q[j]*buf[-1-j]
                        pred=s2>>5; tv=v-coffset
                    res.append(tv-pred); buf.append(tv)
                mx=max((abs(r) for r in res),default=0)
                resn=int(np.clip(mx.bit_length()-int(rng.integers(0,3)),0,20))
                if rng.random()<0.06:
                    # a residual width far too narrow for the block's largest residual (an isolated click in a quiet block):
                    # valid, and the unary part of that code runs over one or more whole 32-bit words of zeros
                    resn=int(np.clip(mx.bit_length()-int(rng.integers(6,10)),0,20)); stats['long_unary_runs']=stats.get('long_unary_runs',0)+1
                bw.uvar(resn,3)
                if cmd==FN_QLPC:
                    bw.uvar(nlpc,2)
                    for qq in q: bw.var(qq,5)
                for r in res: bw.var(r,resn)
            if nmean>0:
                s=(bs//2 if version>=2 else 0)+sum(blk)
                offs[c]=offs[c][1:nmean]+[cdiv(s,bs)<<(bitshift if version>=2 else 0)]
            hist[c]=(hist[c]+blk)[-nwrap:]
        pos+=bs
    if inject and (inject[0]=='end' or (inject[0]=='mid' and nblk<2)): foreign()
    bw.uvar(FN_QUIT,2); stat(FN_QUIT)
    return b'ajkg'+bytes([version])+bw.tobytes(), stats
