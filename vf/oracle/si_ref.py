"""Reference short-integration features from the documented definition.

coefficient i of frame k = sum_j w[j] |(x * h_i)[n_k + j]|^p over a span of 2*frame_shift
samples; h_i = the bank's impulse response clamped to the longest filter's support; x is
zero outside its ends; x*h by np.convolve.  Alignment conventions (documented: causal
filters shifted so that every filter is supported at/after 0 and the span starts at
k*frame_shift; centered filters re-centred with their support in the middle of the frame and
the span centred on k*frame_shift):

causal   T = max_i(-left_i) (>= 0), S = max_i right_i + T, clamp window [-T, S-T),
         span start n_k = k*fs
centered S = max_i(right_i-left_i), T = S//2, mid_i = (left_i+right_i)//2,
         clamp window [mid_i-1-T, mid_i-1-T+S), span start n_k = k*fs - fs + mid_i - 1
energy   unit impulse: |x[k*fs + j]|^p (causal), |x[k*fs - fs + j]|^p (centered)
"""
import numpy as np


def in_scope(supports, fs, style):
    """the statement's precondition, narrower reading (DESIGN C01/C03)"""
    if style == "causal":
        widest = max(supports, key=lambda s: s[1] - s[0])
        return fs < min(max(r for l, r in supports), widest[1])
    return fs < max(r - l for l, r in supports) // 2


def num_frames(N, fs):
    return (N + fs // 2) // fs


def si_ref(x, bank, width, window, fs, style, use_power, use_log, energy, log_floor):
    x = np.asarray(x, dtype=np.float64)
    N = len(x)
    sup = bank.supports
    nf = num_frames(N, fs)
    if style == "causal":
        T = max(max(-l for l, r in sup), 0)
        S = max(r for l, r in sup) + T
    else:
        S = max(r - l for l, r in sup)
        T = S // 2
    w = np.asarray(window, dtype=np.float64)
    p = 2 if use_power else 1
    J = np.arange(2 * fs)
    K = np.arange(nf)[:, None] * fs

    def integrate(mag, first):
        # mag[t] = |conv|^p at conv index first + t ; frames sum w[j] * value at (k*fs + j + off)
        idx = K + J[None, :] - first
        ok = (idx >= 0) & (idx < len(mag))
        vals = np.where(ok, mag[np.clip(idx, 0, max(len(mag) - 1, 0))] if len(mag) else 0.0, 0.0)
        return vals @ w

    cols = []
    hsum = 1.0 if energy else 0.0
    if energy:
        mag = np.abs(x) ** p
        cols.append(integrate(mag, 0 if style == "causal" else fs))
    for i in range(bank.num_filts):
        h = np.asarray(bank.get_impulse_response(i, width))
        l, r = sup[i]
        mid = (l + r) // 2
        if style == "causal":
            lo, off = -T, 0
        else:
            lo, off = mid - 1 - T, -fs + mid - 1
        ms = np.arange(lo, lo + S)
        hc = h[ms % width]
        hsum = max(hsum, float(np.sum(np.abs(hc))))
        full = np.convolve(x.astype(np.complex128), hc) if N else np.zeros(0, complex)
        # full[t] is (x*h)[t + lo]; the frame sample j of frame k reads conv index k*fs + j + off
        cols.append(integrate(np.abs(full) ** p, lo - off))
    out = np.stack(cols, 1) if cols else np.zeros((nf, 0))
    if nf == 0:
        out = np.zeros((0, len(cols)))
    if use_log:
        out = np.log(np.maximum(out, log_floor))
    # |x * h| <= max|x| * sum|h|: the magnitude scale against which an FFT-based convolution rounds
    si_ref.last_yscale = (float(np.max(np.abs(x))) if N else 0.0) * hsum
    return out
