"""Writer for NIST SPHERE files (header + raw sample data), from the format description:
an ASCII header 'NIST_1A\n%7d\n' + 'name -type value' lines + 'end_head', padded to the
header size (a multiple of 1024), followed by interleaved samples."""
import numpy as np


def header(nchan, nsamp, coding="pcm", nbytes=2, order="01", hdrsize=1024, rate=8000, extra=()):
    lines = ["NIST_1A", "%7d" % hdrsize]
    fields = ["channel_count -i %d" % nchan, "sample_count -i %d" % nsamp, "sample_rate -i %d" % rate, "sample_n_bytes -i %d" % nbytes]
    if order:
        fields.append("sample_byte_format -s%d %s" % (len(order), order))
    fields.append("sample_coding -s%d %s" % (len(coding), coding))
    fields = list(extra) + fields if extra and len(extra) % 2 else fields + list(extra)
    h = ("\n".join(lines + fields + ["end_head"]) + "\n").encode()
    if len(h) > hdrsize:
        raise ValueError("header too small")
    return h + b" " * (hdrsize - len(h))


def pcm_bytes(x, order):
    """x: (samples, channels) int16 array -> interleaved bytes in the given byte order"""
    return np.ascontiguousarray(x).astype("<i2" if order == "01" else ">i2").tobytes()
