"""Writer for NIST SPHERE files (header + raw sample data), from the format description:
an ASCII header 'NIST_1A\n%7d\n' + 'name -type value' lines + 'end_head', padded to the
header size (a multiple of 1024), followed by interleaved samples."""
import numpy as np


def filler(nbytes):
    """optional fields ('name -sN value' lines) occupying exactly nbytes bytes including their newlines"""
    out, left, k = [], nbytes, 0
    while left > 0:
        take = left if left < 60 else (30 if left < 90 else 45)   # never leave a remainder too short for a line
        name = "xfield%03d" % k
        n = take - len(name) - len(" -s00 ") - 1
        if n < 1:
            raise ValueError("filler too short")
        out.append("%s -s%02d %s" % (name, n, "v" * n))
        left -= take
        k += 1
    assert sum(len(l) + 1 for l in out) == nbytes
    return out


def header(nchan, nsamp, coding="pcm", nbytes=2, order="01", hdrsize=1024, rate=8000, extra=(), lead=0, pad=b" "):
    """lead > 0: that many bytes of optional fields before the mandatory ones (pushes them towards / across a
    1024-byte block boundary of an extended header)"""
    lines = ["NIST_1A", "%7d" % hdrsize]
    if lead:
        lines += filler(lead)
    fields = ["channel_count -i %d" % nchan, "sample_count -i %d" % nsamp, "sample_rate -i %d" % rate, "sample_n_bytes -i %d" % nbytes]
    if order:
        fields.append("sample_byte_format -s%d %s" % (len(order), order))
    fields.append("sample_coding -s%d %s" % (len(coding), coding))
    fields = list(extra) + fields if extra and len(extra) % 2 else fields + list(extra)
    h = ("\n".join(lines + fields + ["end_head"]) + "\n").encode()
    if len(h) > hdrsize:
        raise ValueError("header too small")
    # what follows "end_head" up to the header size belongs to no field: blanks by convention, but any bytes will do
    return h + (pad * (hdrsize // len(pad) + 1))[: hdrsize - len(h)]


def pcm_bytes(x, order):
    """x: (samples, channels) int16 array -> interleaved bytes in the given byte order"""
    return np.ascontiguousarray(x).astype("<i2" if order == "01" else ">i2").tobytes()
