"""Reference STFT features, written from the documentation of
ShortTimeFourierTransformFrameComputer and of LinearFilterBank.get_truncated_response.

Nothing here reads a private attribute of the computer: the caller passes the public
geometry (frame_length, frame_shift, style, kaldi_shift), the flags, the window samples
(from a fresh WindowFunction) and the DFT size that was *observed* when the computer asked
its bank for truncated responses.
"""
import numpy as np


def rebuild_full(bank, i, width):
    """Full frequency response from the truncated one, by the two documented recipes."""
    bin_idx, trnc = bank.get_truncated_response(i, width)
    trnc = np.asarray(trnc)
    full = np.zeros(width, dtype=np.complex128)
    if bank.is_real:
        full[bin_idx:bin_idx + len(trnc)] = trnc
        full[width - bin_idx - len(trnc) + 1:width - bin_idx + 1] = trnc[:None if bin_idx else 0:-1].conj()
    else:
        wrap = min(bin_idx + len(trnc), width) - bin_idx
        full[bin_idx:bin_idx + wrap] = trnc[:wrap]
        full[:len(trnc) - wrap] = trnc[wrap:]
    return full, bin_idx, len(trnc)


def num_frames(N, fl, fs):
    return (N + fs // 2) // fs if N >= fl // 2 + 1 else 0


def frame_start(k, fl, fs, style, kaldi):
    if style == "causal":
        return k * fs
    if kaldi:
        return k * fs - fl // 2 + fs // 2
    return k * fs - (fl + 1) // 2 + 1


def reflect_index(idx, N):
    """symmetric reflection with period 2N: ... x1 x0 | x0 x1 ... x(N-1) | x(N-1) ..."""
    m = np.mod(idx, 2 * N)
    return np.where(m >= N, 2 * N - 1 - m, m)


def stft_ref(x, fl, fs, style, kaldi, window, D, H, use_log, use_power, include_energy, log_floor):
    """x: 1-D float array; window: fl samples; H: list of full responses of length D."""
    x = np.asarray(x, dtype=np.float64)
    N = len(x)
    F = len(H) + int(include_energy)
    nf = num_frames(N, fl, fs)
    out = np.zeros((nf, F))
    p = 2 if use_power else 1
    xscale = escale = 0.0
    for k in range(nf):
        s = frame_start(k, fl, fs, style, kaldi)
        frame = x[reflect_index(np.arange(s, s + fl), N)]
        X = np.fft.fft(frame * window, n=D)
        xscale = max(xscale, float(np.sum(np.abs(X) ** p)))
        escale = max(escale, float(np.sum(np.abs(frame)) ** p))
        off = 0
        if include_energy:
            e = float(np.mean(frame ** 2))
            out[k, 0] = e if use_power else e ** 0.5
            off = 1
        for i, h in enumerate(H):
            out[k, off + i] = np.sum(np.abs(X * h) ** p)
    if use_log:
        out = np.log(np.maximum(out, log_floor))
    # largest sum_k |X_k|^p over the frames (unit-gain coefficient scale), and (sum_n |frame_n|)^p, the
    # magnitude scale of the frame itself (windows are normalised to sum to ~1, so |X_k| <= ~ that)
    stft_ref.last_xscale = max(xscale, 1e-4 * escale)
    return out


def compare_features(got, want, use_log, log_floor, rtol, atol, xscale=0.0, abs_extra=0.0):
    """Linear-domain comparison (DESIGN 3.3). -> (ok, index, detail)"""
    got = np.asarray(got, dtype=np.float64)
    want = np.asarray(want, dtype=np.float64)
    if got.shape != want.shape:
        return False, None, "shape %r vs %r" % (got.shape, want.shape)
    if got.size == 0:
        return True, None, ""
    if not np.all(np.isfinite(got)):
        i = tuple(int(v) for v in np.argwhere(~np.isfinite(got))[0])
        return False, i, "non-finite value %r" % got[i]
    if use_log:
        a, b = np.exp(got), np.exp(want)
    else:
        a, b = got, want
    # a filter whose response is below 1e-2 on every bin of the grid only carries the bank's own
    # rounding noise; the absolute term is therefore never smaller than atol * 1e-2 * sum|X|^p
    S = max(float(np.max(np.abs(b))), 1e-2 * xscale)
    lim = rtol * np.maximum(np.abs(a), np.abs(b)) + atol * max(S, log_floor if use_log else 0.0) + abs_extra
    exc = np.abs(a - b) - lim
    i = np.unravel_index(int(np.argmax(exc)), exc.shape)
    if exc[i] > 0:
        return False, tuple(int(v) for v in i), "got %r want %r (linear %.6g vs %.6g, scale %.3g)" % (got[i], want[i], a[i], b[i], S)
    return True, None, ""
