"""Independent implementations of the four scaling functions, from the published
formulas (math module only; no code shared with pydrobert.speech.scales).

mel  : O'Shaughnessy 1987         s = 1127 ln(1 + f/700)
bark : Traunmueller 1990          z = 26.81 f/(1960+f) - 0.53, with the low/high
                                  corrections z<2: z+0.15(2-z);  z>20.1: z+0.22(z-20.1)
linear: s = (f - low) * slope     octave: s = log2(f / low)
"""
import math


def mel_fwd(f):
    return 1127.0 * math.log1p(f / 700.0)


def mel_inv(s):
    return 700.0 * math.expm1(s / 1127.0)


def bark_fwd(f):
    z = 26.81 * f / (1960.0 + f) - 0.53
    if z < 2.0:
        z = z + 0.15 * (2.0 - z)
    elif z > 20.1:
        z = z + 0.22 * (z - 20.1)
    return z


def bark_inv(s):
    # invert the corrections: s = 0.85 z + 0.3 (z < 2),  s = 1.22 z - 4.422 (z > 20.1)
    if s < 2.0:
        z = (s - 0.3) / 0.85
    elif s > 20.1:
        z = (s + 4.422) / 1.22
    else:
        z = s
    # z = 26.81 f/(1960+f) - 0.53  <=>  f = 1960 (z+0.53) / (26.81 - 0.53 - z)
    return 1960.0 * (z + 0.53) / (26.81 - 0.53 - z)


BARK_BREAKS_HZ = (1960.0 * 2.53 / (26.28 - 2.0), 1960.0 * 20.63 / (26.28 - 20.1))
BARK_BREAKS_SCALE = (2.0, 20.1)


def linear_fwd(f, low, slope):
    return (f - low) * slope


def linear_inv(s, low, slope):
    return s / slope + low


def octave_fwd(f, low):
    return math.log2(f / low)


def octave_inv(s, low):
    return low * 2.0 ** s


def ref_pair(name, params):
    if name == "mel":
        return mel_fwd, mel_inv
    if name == "bark":
        return bark_fwd, bark_inv
    if name == "linear":
        lo, sl = params["low_hz"], params.get("slope_hz", 1.0)
        return (lambda f: linear_fwd(f, lo, sl)), (lambda s: linear_inv(s, lo, sl))
    if name == "octave":
        lo = params["low_hz"]
        return (lambda f: octave_fwd(f, lo)), (lambda s: octave_inv(s, lo))
    if name == "vfsqrt":  # the user-defined scale of vf/userbank.py
        return (lambda f: math.sqrt(f + 100.0)), (lambda s: s * s - 100.0)
    raise KeyError(name)
