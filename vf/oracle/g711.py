"""ITU-T G.711 mu-law and A-law expansion to 16-bit linear PCM, from the bit-field
definition of the recommendation (sign bit, 3-bit segment, 4-bit step; codes are
transmitted inverted: all bits for mu-law, every other bit (0x55) for A-law)."""


def ulaw_to_linear(code):
    u = ~code & 0xFF
    sign, seg, step = u & 0x80, (u >> 4) & 0x07, u & 0x0F
    mag = (((step << 3) + 0x84) << seg) - 0x84  # bias 0x84 = 132
    return -mag if sign else mag


def alaw_to_linear(code):
    a = (code ^ 0x55) & 0xFF
    sign, seg, step = a & 0x80, (a >> 4) & 0x07, a & 0x0F
    if seg == 0:
        mag = (step << 4) + 8
    else:
        mag = ((step << 4) + 0x108) << (seg - 1)
    return mag if sign else -mag


ULAW = [ulaw_to_linear(c) for c in range(256)]
ALAW = [alaw_to_linear(c) for c in range(256)]
