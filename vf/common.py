"""Small shared helpers: seeding, sharding, tolerant comparison."""
import zlib

import numpy as np


def pid_num(pid):
    return int(pid[1:])


def rng_for(seed, pid, *coords):
    """Deterministic generator from (seed, property, coordinates...)."""
    ints = [int(seed), pid_num(pid)]
    for c in coords:
        if isinstance(c, str):
            ints.append(zlib.crc32(c.encode()))
        else:
            ints.append(int(c))
    return np.random.default_rng(np.random.SeedSequence(ints))


def split(n_items, n_shards):
    """[(start, stop)] covering range(n_items) in n_shards nearly equal pieces."""
    n_shards = max(1, min(n_shards, n_items))
    out = []
    for i in range(n_shards):
        a = n_items * i // n_shards
        b = n_items * (i + 1) // n_shards
        if b > a:
            out.append((a, b))
    return out


def close(a, b, rtol, atol):
    """|a-b| <= rtol*max(|a|,|b|) + atol elementwise -> (ok, worst index, worst excess)."""
    a = np.asarray(a)
    b = np.asarray(b)
    if a.shape != b.shape:
        return False, None, float("inf")
    if a.size == 0:
        return True, None, 0.0
    if not (np.all(np.isfinite(a)) and np.all(np.isfinite(b))):
        same_nonfinite = np.array_equal(np.isnan(a), np.isnan(b)) and np.array_equal(
            np.where(np.isinf(a), a, 0), np.where(np.isinf(b), b, 0)
        )
        if not same_nonfinite:
            bad = np.argwhere(~(np.isfinite(a) & np.isfinite(b)))
            return False, tuple(int(v) for v in bad[0]), float("inf")
        a = np.where(np.isfinite(a), a, 0)
        b = np.where(np.isfinite(b), b, 0)
    err = np.abs(a - b)
    lim = rtol * np.maximum(np.abs(a), np.abs(b)) + atol
    exc = err - lim
    i = np.unravel_index(np.argmax(exc), exc.shape) if exc.ndim else ()
    worst = float(exc[i]) if exc.ndim else float(exc)
    return worst <= 0, tuple(int(v) for v in i), worst


def digest(a):
    a = np.ascontiguousarray(a)
    return zlib.crc32(a.tobytes()) ^ hash((a.shape, str(a.dtype))) & 0xFFFFFFFF


import contextlib


@contextlib.contextmanager
def support_threshold(value):
    """temporarily change pydrobert.speech.config.EFFECTIVE_SUPPORT_THRESHOLD (a configuration value the
    filter-bank properties are stated relative to); None leaves it alone"""
    from pydrobert.speech import config

    old = config.EFFECTIVE_SUPPORT_THRESHOLD
    if value is not None:
        config.EFFECTIVE_SUPPORT_THRESHOLD = value
    try:
        yield
    finally:
        config.EFFECTIVE_SUPPORT_THRESHOLD = old


@contextlib.contextmanager
def config_value(name, value):
    """temporarily change an attribute of pydrobert.speech.config (None leaves it alone)"""
    from pydrobert.speech import config

    old = getattr(config, name)
    if value is not None:
        setattr(config, name, value)
    try:
        yield
    finally:
        setattr(config, name, old)


def relayout(rng, x, p=0.2):
    """the same values in another memory layout, with probability p: Fortran order, every other element of a wider
    array along one axis, or an axis stored backwards (the values and the shape are those of x)"""
    x = np.asarray(x)
    if x.ndim == 0 or x.size == 0 or rng.random() >= p:
        return x
    lay = int(rng.integers(3))
    if lay == 0 and x.ndim >= 2:
        return np.asfortranarray(x)
    ax = int(rng.integers(x.ndim))
    if lay == 1:
        shape = list(x.shape)
        shape[ax] *= 2
        big = np.full(shape, 7, dtype=x.dtype)
        idx = [slice(None)] * x.ndim
        idx[ax] = slice(None, None, 2)
        v = big[tuple(idx)]
    else:
        big = np.empty(x.shape, dtype=x.dtype)
        idx = [slice(None)] * x.ndim
        idx[ax] = slice(None, None, -1)
        v = big[tuple(idx)]
    v[...] = x
    return v


COPY_WAYS = ("deepcopy", "pickle", "copy")


def copied(obj, way):
    """the object as a program that hands objects to workers sees it: copy.deepcopy, a pickle round trip, or copy.copy
    (way: index or name).  The copy is an object of the same class in the same state; whatever the property says
    of the original it says of the copy."""
    import copy
    import pickle

    way = COPY_WAYS[way % len(COPY_WAYS)] if isinstance(way, int) else way
    if way == "deepcopy":
        return copy.deepcopy(obj)
    if way == "pickle":
        return pickle.loads(pickle.dumps(obj, protocol=pickle.HIGHEST_PROTOCOL))
    return copy.copy(obj)


def poke(obj):
    """what an inquisitive client (a debugger, a logger, a notebook) does to an object between two calls: read every public
    attribute and property, take repr() / str(), compare it with itself, hash it.  None of this is a use of the object: the
    properties are stated over the calls that follow.  Methods are not called.  Returns the number of attributes read."""
    n = 0
    for name in dir(obj):
        if name.startswith("_"):
            continue
        try:
            v = getattr(obj, name)
        except Exception:
            continue
        if not callable(v):
            n += 1
    for f in (repr, str, hash, lambda o: o == o, lambda o: o != o, bool):
        try:
            f(obj)
        except Exception:
            pass
    return n


def scribble(obj):
    """a client that takes what a public property hands out for its own: `ticks = np.asarray(bank.centers_hz); ticks /= 1000`.
    Every public non-callable attribute is read, and where the value (as np.asarray sees it) is a writable array it is rescaled in
    place.  What a property hands out is the caller's: the object's later answers do not depend on what the caller does with it.
    Returns the number of arrays written to."""
    import numpy as np

    n = 0
    for name in dir(obj):
        if name.startswith("_"):
            continue
        try:
            v = getattr(obj, name)
        except Exception:
            continue
        if callable(v) or isinstance(v, (str, bytes)) or v is None:
            continue
        try:
            a = np.asarray(v)
            if a.dtype.kind in "fiuc" and a.size and a.flags.writeable and a.ndim >= 1:
                a *= 0
                a += 7
                n += 1
        except Exception:
            pass
    return n
