#!/venv/bin/python
"""Regenerate /verif/MANIFEST.json from the property modules' own metadata."""
import importlib, json, os, sys
sys.path.insert(0, "/verif"); sys.path.insert(0, "/repo/src")
props = [json.loads(l) for l in open("/verif/properties.jsonl")]
checks, na = [], []
for p in props:
    pid = p["id"]
    path = "/verif/vf/props/%s.py" % pid
    mod = None
    if os.path.exists(path):
        mod = importlib.import_module("vf.props." + pid)
    if mod is None or not getattr(mod, "CLAIMED", True):
        na.append({"property_id": pid, "reason": getattr(mod, "NA_REASON", "check not built yet (work in progress); not claimed")})
        continue
    checks.append({
        "property_id": pid,
        "quick_cmd": "./check %s quick" % pid,
        "thorough_cmd": "./check %s thorough" % pid,
        "evidence_file": "evidence/%s.json" % pid,
        "replay_cmd_template": "./check %s --replay {path}" % pid,
        "engine": "vf",
        "level_claimed": {"category": mod.LEVEL, "text": mod.LEVEL_TEXT, "design_ref": "DESIGN.md section 4, " + pid},
        "level_note": mod.LEVEL_NOTE,
        "technique": mod.TECHNIQUE,
    })
m = {
    "version": 1,
    "setup_cmd": "mkdir -p evidence replays && /venv/bin/python -m compileall -q vf >/dev/null 2>&1; /venv/bin/python -c 'import numpy, sys; sys.path.insert(0, \"/repo/src\"); import pydrobert.speech'",
    "hooks": {
        "guard": "PYDROBERT_SPEECH_VERIF",
        "enable": "./check exports PYDROBERT_SPEECH_VERIF=1 and PYTHONPATH=/repo/src:/verif; the repository contains no hook code - all monitors are attached from /verif/vf at run time by replacing attributes on the real classes (vf/monitor.py), by sys.monitoring and by strace",
        "baseline_off_cmd": "tools/baseline_off.sh",
        "source_commits": [],
        "add_only": True,
    },
    "engines": [{"name": "vf", "path": "vf/", "serves_properties": [c["property_id"] for c in checks],
                 "kind_free_text": "runtime monitors on the real code (API-boundary wrappers with reference-model oracles, trace checkers, poison-fill/read-only sanitizer analogues, sys.monitoring failpoints, strace fault injection) driven by seeded hostile workloads"}],
    "checks": checks,
    "not_applicable": na,
    "notes": "Every check imports pydrobert.speech from /repo/src (asserted at start) so it always runs the current working tree. Exit 0 held / 1 VIOLATION / 2 INCONCLUSIVE. known_findings.json lists genuine defects (fixed: with commit; known: keyed by mechanism).",
}
json.dump(m, open("/verif/MANIFEST.json", "w"), indent=1)
import subprocess
subprocess.check_call(["python3-vt", "-c", "import json, jsonschema; jsonschema.validate(json.load(open('/verif/MANIFEST.json')), json.load(open('/root/.vp/MANIFEST.schema.json')))"])
print("MANIFEST ok: %d checks, %d not_applicable" % (len(checks), len(na)))
