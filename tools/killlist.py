#!/venv/bin/python
"""tools/killlist.py [ID ...]  - regression test of the monitors themselves.

Applies each textual mutant below to a scratch copy of /repo/src (under /tmp, removed
afterwards), runs the named check's quick tier against it (VERIF_REPO=<scratch>) and reports
KILLED / SURVIVED.  Mutants marked "E" are argued equivalent (DESIGN.md 8.4) and are expected
to survive; every other one must be killed.  Exit 1 if an expectation is not met.
Evidence files are restored after each run.
"""
import os
VERIF = __import__("os").path.dirname(__import__("os").path.dirname(__import__("os").path.abspath(__file__)))  # this checkout, wherever it is
import shutil
import subprocess
import sys
import tempfile

C = "src/pydrobert/speech/compute.py"
F = "src/pydrobert/speech/filters.py"
T = "src/pydrobert/speech/torch.py"
P = "src/pydrobert/speech/post.py"
R = "src/pydrobert/speech/pre.py"
U = "src/pydrobert/speech/util.py"
S = "src/pydrobert/speech/_sphere.py"
A = "src/pydrobert/speech/alias.py"
L = "src/pydrobert/speech/command_line.py"
SC = "src/pydrobert/speech/scales.py"

# (check, file, old, new, expectation, note)
MUTANTS = [
    ("C01", C, "        if self._first_frame and buf_len < frame_length // 2 + 1:\n            # the whole utterance is in the buffer and compute_full would reject it\n            num_frames = 0\n", "", "K", "revert fix D1"),
    ("C01", C, "            frames = frames[hist_len - buf_len :]", "            frames = np.pad(self._buf[-buf_len:], (pad_left, pad_right), \"symmetric\",)", "K", "revert fix D2"),
    ("C01", C, "            self._compute_frame(frame, coeffs[frame_idx])\n            self._first_frame = False", "            self._compute_frame(frame, coeffs[frame_idx])\n            self._first_frame = frame_idx > 3", "K", "first-frame flag"),
    ("C01", C, "        self._x_rem = max(0, num_raw - num_dfts * valid_samples_per_dft)", "        self._x_rem = max(0, num_raw - num_dfts * valid_samples_per_dft - (1 if chunk_len == 5 else 0))", "K", "SI x_rem"),
    ("C02", C, "half_len - 2 + self._dft_size % 2,\n                        )", "half_len - 2 + half_len % 2,\n                        )", "K", "revert fix D3"),
    ("C02", C, "energy = np.inner(frame64, frame64) / self._frame_length", "energy = np.inner(frame64 * self._window, frame64) / self._frame_length", "K", "energy from windowed frame"),
    ("C02", C, "frame64 = frame.astype(np.float64, copy=False)", "frame64 = frame", "K", "revert fix D35 (energy in the signal's type)"),
    ("C02", C, "num_frames = max(0, (len(signal) + frame_shift // 2) // frame_shift)", "num_frames = max(0, (len(signal) + (frame_shift - 1) // 2) // frame_shift)", "K", "frame count rounding"),
    ("C02", C, "                if start_idx == 0 and trunc_len:\n                    val -= self._nonlin_op(half_spect[:1] * truncated_filt[:1])\n", "", "K", "partial revert of fix D30 (0 Hz bin)"),
    ("C14", T, "            if mod == 0 and ni >= 0 and ni < filt_len:", "            if mod == 1 and ni >= 0 and ni < filt_len:", "K", "fix D30 on odd sizes only (torch)"),
    ("C14", T, "    sig = sig.contiguous().as_strided(", "    sig = sig.as_strided(", "K", "revert fix D32 (non-contiguous signal)"),
    ("C03", C, "        if not np.iscomplexobj(buff):\n            # numpy >= 2 no longer upcasts the transform of a non-f64 buffer\n            buff = buff.astype(np.float64, copy=False)\n", "", "K", "revert fix D5"),
    ("C03", C, "            dirac_filter[self._translation] = 1", "            dirac_filter[0] = 1", "K", "energy impulse position"),
    ("C03", C, "        vals = self._y_buf[0, 0, :] + self._y_buf[1, 1, :]", "        vals = self._y_buf[0, 1, :] + self._y_buf[1, 0, :]", "K", "window halves"),
    ("C04", C, "        self._first_frame = True\n        self._chunk_dtype = np.float64", "        self._first_frame = True", "K", "revert fix D6 (STFT)"),
    ("C04", C, "            self._x_buf.fill(0)\n            self._y_buf.fill(0)", "            self._x_buf.fill(0)", "K", "stale y_buf"),
    ("C04", C, "        if self._started:\n            raise ValueError(\"Already started computing frames\")\n        return np.concatenate([self.compute_chunk(signal), self.finalize()])", "        return np.concatenate([self.compute_chunk(signal), self.finalize()])", "K", "missing guard"),
    ("C05", F, "                log_c = order * (log_alpha + log_2)\n                log_c -= 0.5 * (log_2 + log_alpha + log_double_factorial)", "                log_c = 0.5 * (log_2 + log_alpha + log_double_factorial)\n                log_c -= order * (log_alpha + log_2)", "K", "revert fix D7"),
    ("C05", F, "            alpha_const -= np.log(2 * np.pi)\n", "", "K", "revert fix D8"),
    ("C05", F, "bandwidth_const = np.sqrt(3 / 10 * np.log(10))", "bandwidth_const = np.sqrt(3 / 10 * np.log(9))", "K", "3 dB constant"),
    ("C05", F, "        if not (0 <= low_hz < high_hz <= nyquist + 1):", "        if not (0 <= low_hz <= high_hz <= nyquist + 1):", "K", "range check"),
    ("C05", F, "        log_double_factorial = math.lgamma(2 * order - 1)", "        log_double_factorial = np.log(math.factorial(2 * order - 2))", "K", "revert fix D34"),
    ("C06", F, "        return left_idx % width, res\n\n\nclass ComplexGammatoneFilterBank", "        return left_idx, res\n\n\nclass ComplexGammatoneFilterBank", "K", "missing modulo"),
    ("C06", F, "        return left_idx % width, self._H(omega, filt_idx)", "        return left_idx % width, self._H(omega[:-1], filt_idx)", "K", "short buffer"),
    ("C07", F, "            h_0 = np.abs(self._h(right + offset, idx))\n            while h_0 > eps:", "            h_0 = np.abs(self._h(right, idx))\n            while h_0 > eps:", "K", "partial revert of fix D9"),
    ("C07", F, "            K = np.sqrt(8 * (right - left) / np.pi)", "            K = np.sqrt(6 * (right - left) / np.pi)", "K", "triangular support constant"),
    ("C07", F, "            K **= 0.3333", "            K **= 0.32", "E", "Fbank support stays inside the 2T bound"),
    ("C08", A, "                stack.append(parent)\n                stack.extend(children)", "                stack.append(parent)\n                stack.extend(reversed(children))", "K", "child order"),
    ("C08", A, "        arg = dict(arg)\n        try:", "        try:", "K", "mapping modified"),
    ("C09", L, "        buff = buff[cur_chan].astype(np.float64, copy=False)", "        buff = buff[0].astype(np.float64, copy=False)", "K", "channel 0 always"),
    ("C09", L, "            for postprocessor in self.postprocessors:\n                feats = postprocessor(feats)", "            for postprocessor in self.postprocessors[::-1]:\n                feats = postprocessor(feats)", "K", "post order (torch tool)"),
    ("C09", L, "                \"\".format(utt_id, computer.bank.sampling_rate, samp_freq)", "                \"\".format(utt_id, computer.bank.sample_rate_hz, samp_freq)", "K", "revert fix D12"),
    ("C10", L, "            print(utt_id, file=options.manifest, flush=True)", "            print(utt_id, file=options.manifest)", "K", "revert fix D13"),
    ("C10", L, "            torch.manual_seed(self.seed + self.utt2idx.get(utt_id, idx))", "            torch.manual_seed(self.seed + idx)", "K", "revert fix D14"),
    ("C11", U, "            data = data.reshape((n_data_points // n_channels, n_channels), order=\"C\")", "            data = data.reshape((n_channels, n_data_points // n_channels), order=\"C\").T", "K", "wav channel layout"),
    ("C11", U, "    except:\n        return None", "    except (IOError, ValueError, KeyError, TypeError, RuntimeError, EOFError):\n        return None", "K", "narrowed except"),
    ("C12", S, "        inpbuf = rem + inpbuf\n        nb = len(inpbuf)", "        nb = len(inpbuf)", "K", "revert fix D15"),
    ("C12", S, "    data = data[: sampsdone * chancount]\n    if chancount > 1:\n        data = data.reshape((sampsdone, chancount), order=\"C\")", "    if chancount > 1:\n        data = data[: sampsdone * chancount].reshape((sampsdone, chancount), order=\"C\")", "K", "revert fix D16"),
    ("C12", S, "    in_type = in_type.newbyteorder(\">\" if (inporder == \"10\") else \"<\")", "    in_type = in_type.newbyteorder(\">\" if (inporder != \"01\") else \"<\")", "E", "only 01 / 10 exist"),
    ("C13", S, "    masktab = [0] * MASKTABSIZE  # python ints: the words they mask may be negative", "    masktab = np.empty(MASKTABSIZE, dtype=np.uint32)", "K", "revert fix D17"),
    ("C13", S, "    return int(float(a) / b)", "    return a // b", "K", "floor division"),
    ("C14", T, "    mod = dft_size_ % 2", "    mod = half_len % 2", "K", "revert fix D3 (torch)"),
    ("C14", T, "        return sig.new_empty((0, num_filts + int(include_energy)))\n    zero = sig.new_zeros(1)", "        return sig.new_empty((0, num_filts))\n    zero = sig.new_zeros(1)", "K", "revert fix D18"),
    ("C15", P, "return np.concatenate(delta_feats, self._target_axis)", "return np.concatenate(delta_feats, axis)", "K", "concatenation axis"),
    ("C15", P, "            if not in_place:\n                features = features.copy()", "            pass", "K", "aliasing"),
    ("C16", P, "            varss = self._stats[1, :-1] / count - means ** 2\n        elif", "            varss = self._stats[1, :-1] / count\n        elif", "K", "variance"),
    ("C16", P, "        tensor_slice[axis] = slice(None)", "        tensor_slice[-1 if axis != 0 else 0] = slice(None)", "K", "broadcast axis"),
    ("C17", P, "            valid &= np.all(self._stats[1] >= 0) and self._stats[0, -1] >= 0", "            valid &= np.all(self._stats >= 0)", "K", "revert fix D19"),
    ("C17", P, "                    with np.load(wfilename) as archive:\n                        array = dict(archive)", "                    array = np.load(wfilename)", "K", "revert fix D20"),
    ("C18", R, "signal[..., 1:] -= self.coeff * signal[..., :-1]", "signal[..., 1:] -= np.float32(self.coeff) * signal[..., :-1]", "K", "float32 coefficient"),
    ("C18", R, "signal += np.random.normal(0, self.coeff, signal.shape)", "signal += np.random.normal(0, self.coeff, signal.shape) * (1 + 1e-3 * np.sign(signal))", "K", "signal-dependent noise"),
    ("C19", SC, "(50.0 * scale + 221.1) / 61.0", "(50.0 * scale + 221.2) / 61.0", "K", "Bark constant"),
    ("C19", SC, "if low_hz <= 0:", "if low_hz < 0:", "K", "octave guard"),
    ("C19", SC, "(2.0 ** scale)", "(2 ** scale)", "K", "revert fix D31"),
    ("C19", SC, "(hertz - float(self.low_hz))", "(hertz - self.low_hz)", "K", "revert fix D33"),
    ("C20", U, "    if dft_size is None:\n        dft_size = len(filt) + start_idx\n    shift %= dft_size", "    shift %= dft_size\n    if dft_size is None:\n        dft_size = len(filt) + start_idx", "K", "revert fix D21"),
    ("C20", F, "window /= 0.42 * max(1, width - 1)", "window /= 0.42 * max(1, width)", "K", "window area"),
]


def main():
    want = set(sys.argv[1:])
    bad = 0
    for (cid, rel, old, new, exp, note) in MUTANTS:
        if want and cid not in want:
            continue
        d = tempfile.mkdtemp(prefix="kl_", dir="/tmp")
        try:
            shutil.copytree("/repo/src", d + "/src")
            os.symlink("/repo/tests", d + "/tests")
            p = os.path.join(d, rel)
            s = open(p).read()
            if s.count(old) != 1:
                print("%s  %-34s PATTERN-NOT-UNIQUE (%d)" % (cid, note, s.count(old)))
                bad += 1
                continue
            open(p, "w").write(s.replace(old, new))
            ev = VERIF + "/evidence/%s.json" % cid
            bak = open(ev).read() if os.path.exists(ev) else None
            r = subprocess.run([VERIF + "/check", cid, "quick"], env=dict(os.environ, VERIF_REPO=d), capture_output=True, text=True)
            if bak is not None:
                open(ev, "w").write(bak)
            got = "K" if r.returncode == 1 else "S" if r.returncode == 0 else "?%d" % r.returncode
            ok = (got == "K") if exp == "K" else (got == "S")
            print("%s  %-34s %s (expected %s) %s" % (cid, note, {"K": "KILLED", "S": "SURVIVED"}.get(got, got), "killed" if exp == "K" else "equivalent", "" if ok else "<-- UNEXPECTED"))
            bad += 0 if ok else 1
        finally:
            shutil.rmtree(d, ignore_errors=True)
    print("unexpected outcomes:", bad)
    return 1 if bad else 0


if __name__ == "__main__":
    sys.exit(main())
