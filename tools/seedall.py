#!/venv/bin/python
"""tools/seedall.py [ID ...] [--jobs N] [--only W,X]  - re-confirm every kept seeded change against the check of its property.

For each /verif/seeded/<ID>_<X>/ runs tools/seedcheck.py (scratch worktree of /repo HEAD, demo
without / with the patch, the property's quick check with VERIF_REPO=<scratch>) and prints one line
per seed.  Seeds of one property run one after the other (they share the property's evidence file
and work directory); different properties run side by side.  Exit 1 if a seed is not confirmed by
its demo, does not apply, or is missed by the check of its own property.
"""
import json
VERIF = __import__("os").path.dirname(__import__("os").path.dirname(__import__("os").path.abspath(__file__)))  # this checkout, wherever it is
import os
import subprocess
import sys
from concurrent.futures import ThreadPoolExecutor

ROOT = VERIF + "/seeded"


def one(seed):
    pid = seed.split("_")[0]
    tier = "quick"
    try:
        meta = json.load(open(os.path.join(ROOT, seed, "meta.json")))
        pid = meta.get("check_with", [pid])[0]  # a few changes belong to another property's check
        tier = meta.get("tier", "quick")        # ... and a few need the thorough tier
    except Exception:
        pass
    r = subprocess.run(["/venv/bin/python", VERIF + "/tools/seedcheck.py", os.path.join(ROOT, seed), pid, "--keep", "--tier", tier], capture_output=True, text=True)
    try:
        res = json.loads(r.stdout[: r.stdout.rindex("}") + 1])
    except Exception:
        return seed, "ERROR", r.stdout[-300:] + r.stderr[-300:]
    ok_demo = res.get("demo_without_patch_rc") == 0 and res.get("patch_applies") and res.get("demo_with_patch_rc") not in (0, None)
    chk = res.get("checks", {}).get(pid, {})
    state = "CAUGHT" if (ok_demo and chk.get("caught")) else ("MISSED" if ok_demo else "UNCONFIRMED")
    first = next((l.strip() for l in chk.get("lines", []) if l.strip().startswith("what")), "")
    return seed, state, ("[%s] " % pid if pid != seed.split("_")[0] else "") + first[:160]


def group(seeds):
    return [one(s) for s in seeds]


def main():
    args = [a for a in sys.argv[1:] if not a.startswith("--")]
    jobs = int(sys.argv[sys.argv.index("--jobs") + 1]) if "--jobs" in sys.argv else 4
    if "--jobs" in sys.argv:
        args = [a for a in args if a != str(jobs)]
    only = sys.argv[sys.argv.index("--only") + 1].split(",") if "--only" in sys.argv else None  # e.g. --only W,X : the seeds of one round
    if only:
        args = [a for a in args if a != ",".join(only)]
    seeds = sorted(d for d in os.listdir(ROOT) if os.path.isdir(os.path.join(ROOT, d)) and (not args or d.split("_")[0] in args) and (not only or d.split("_")[1] in only))
    by = {}
    for s in seeds:
        cid = s.split("_")[0]
        try:
            cid = json.load(open(os.path.join(ROOT, s, "meta.json"))).get("check_with", [cid])[0]
        except Exception:
            pass
        by.setdefault(cid, []).append(s)  # grouped by the check that runs, so that no check runs twice at a time
    bad = 0
    with ThreadPoolExecutor(jobs) as ex:
        for out in ex.map(group, by.values()):
            for seed, state, first in out:
                print("%-7s %-11s %s" % (seed, state, first), flush=True)
                bad += state != "CAUGHT"
    print("seeds: %d  not caught / unconfirmed: %d" % (len(seeds), bad))
    return 1 if bad else 0


if __name__ == "__main__":
    sys.exit(main())
