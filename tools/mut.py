#!/venv/bin/python
"""tools/mut.py <ID>[,<ID>...] <relfile> <old> <new> [tier]
Apply a textual mutation to a scratch copy of /repo (outside /repo and /verif), run the
check(s) against it and report whether they fire.  Evidence files are restored afterwards."""
import os, shutil, subprocess, sys, tempfile
VERIF = __import__("os").path.dirname(__import__("os").path.dirname(__import__("os").path.abspath(__file__)))  # this checkout, wherever it is
ids, rel, old, new = sys.argv[1].split(","), sys.argv[2], sys.argv[3], sys.argv[4]
tier = sys.argv[5] if len(sys.argv) > 5 else "quick"
d = tempfile.mkdtemp(prefix="mut_", dir="/tmp")
try:
    shutil.copytree("/repo/src", d + "/src")
    if os.path.isdir("/repo/tests"):
        os.symlink("/repo/tests", d + "/tests")
    p = os.path.join(d, rel)
    s = open(p).read()
    n = s.count(old)
    if n != 1:
        print("MUT-ERROR: pattern occurs %d times" % n); sys.exit(3)
    open(p, "w").write(s.replace(old, new))
    for i in ids:
        ev = VERIF + "/evidence/%s.json" % i
        bak = open(ev).read() if os.path.exists(ev) else None
        r = subprocess.run([VERIF + "/check", i, tier], env=dict(os.environ, VERIF_REPO=d), capture_output=True, text=True)
        lines = [l for l in r.stdout.splitlines() if l.startswith(("VIOLATION", "  what", "INCONCLUSIVE", "KNOWN"))]
        print("%s rc=%d %s" % (i, r.returncode, "KILLED" if r.returncode == 1 else "SURVIVED"))
        for l in lines[:4]: print("   ", l[:300])
        if r.returncode not in (0, 1): print(r.stdout[-800:], r.stderr[-800:])
        if bak is not None: open(ev, "w").write(bak)
finally:
    shutil.rmtree(d, ignore_errors=True)
