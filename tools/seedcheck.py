#!/venv/bin/python
"""tools/seedcheck.py <seed_dir> <ID>[,<ID>...] [--suite] [--tier quick|thorough]
Confirm a seeded change (patch.diff + demo.py) in a scratch worktree outside /repo and
/verif, and run the named checks against it:
  1. demo on the unchanged tree must exit 0;  2. patch must apply;  3. demo with the patch
  must exit non-zero;  4. (--suite) the repository suite must pass as on the unchanged tree;
  5. each check is run with VERIF_REPO=<scratch> and must exit 1 with a VIOLATION line.
The scratch worktree is removed afterwards; evidence files are restored."""
import json, os, shutil, subprocess, sys, tempfile
VERIF = __import__("os").path.dirname(__import__("os").path.dirname(__import__("os").path.abspath(__file__)))  # this checkout, wherever it is
sd = os.path.abspath(sys.argv[1]); ids = sys.argv[2].split(",")
suite = "--suite" in sys.argv
tier = sys.argv[sys.argv.index("--tier") + 1] if "--tier" in sys.argv else "quick"
wt = tempfile.mkdtemp(prefix="seedchk_", dir="/tmp"); os.rmdir(wt)
def sh(cmd, **kw):
    return subprocess.run(cmd, shell=True, capture_output=True, text=True, **kw)
res = {"seed": os.path.basename(sd)}
try:
    assert sh("git -C /repo worktree add --detach %s HEAD" % wt).returncode == 0
    env = "PYTHONHASHSEED=0 PYTHONDONTWRITEBYTECODE=1 "
    r0 = sh("cd %s && %s PYTHONPATH=%s/src /venv/bin/python %s/demo.py" % (wt, env, wt, sd), timeout=1800)
    res["demo_without_patch_rc"] = r0.returncode
    ra = sh("git -C %s apply %s/patch.diff" % (wt, sd))
    res["patch_applies"] = ra.returncode == 0
    if ra.returncode: res["apply_err"] = ra.stderr[-300:]
    r1 = sh("cd %s && %s PYTHONPATH=%s/src /venv/bin/python %s/demo.py" % (wt, env, wt, sd), timeout=1800)
    res["demo_with_patch_rc"] = r1.returncode
    res["demo_with_patch_tail"] = (r1.stdout + r1.stderr).strip().splitlines()[-1:] 
    if suite:
        rs = sh("cd %s && PYTHONPATH=%s/src /venv/bin/python -m pytest -q -p no:cacheprovider --timeout=900 2>&1 | tail -15" % (wt, wt), timeout=3600)
        lines = rs.stdout.strip().splitlines()
        res["suite_tail"] = lines[-1:] 
        res["suite_failed"] = sorted(l.split()[1].split("[")[0] for l in lines if l.startswith("FAILED"))
    res["checks"] = {}
    for i in ids:
        ev = VERIF + "/evidence/%s.json" % i
        bak = open(ev).read() if os.path.exists(ev) else None
        r = subprocess.run([VERIF + "/check", i, tier], env=dict(os.environ, VERIF_REPO=wt), capture_output=True, text=True)
        lines = [l for l in r.stdout.splitlines() if l.startswith(("VIOLATION", "  what", "INCONCLUSIVE", "KNOWN"))]
        res["checks"][i] = {"rc": r.returncode, "caught": r.returncode == 1, "lines": lines[:4]}
        if r.returncode not in (0, 1): res["checks"][i]["tail"] = (r.stdout + r.stderr)[-600:]
        if bak is not None: open(ev, "w").write(bak)
finally:
    sh("git -C /repo worktree remove --force %s" % wt); shutil.rmtree(wt, ignore_errors=True)
print(json.dumps(res, indent=1))
if "--keep" in sys.argv:
    ok = res.get("demo_without_patch_rc") == 0 and res.get("patch_applies") and res.get("demo_with_patch_rc") not in (0, None)
    if not ok:
        print("NOT KEPT: demonstration not confirmed"); sys.exit(1)
    name = os.path.basename(sd)
    dst = VERIF + "/seeded/" + name
    os.makedirs(dst, exist_ok=True)
    shutil.copy(sd + "/patch.diff", dst); shutil.copy(sd + "/demo.py", dst)
    meta = {}
    try: meta = json.load(open(sd + "/meta.json"))
    except Exception as e: meta = {"note": "agent meta.json unreadable: %r" % e}
    old = {}
    if os.path.exists(dst + "/meta.json"):
        old = json.load(open(dst + "/meta.json")).get("confirmed_by_me", {})
    conf = {"demo_without_patch_rc": res["demo_without_patch_rc"], "demo_with_patch_rc": res["demo_with_patch_rc"],
            "demo_with_patch_tail": res.get("demo_with_patch_tail"),
            "how": "tools/seedcheck.py: scratch `git worktree add` of /repo HEAD under /tmp, demo run before/after `git apply patch.diff`, checks run with VERIF_REPO=<scratch>, worktree removed"}
    if suite:
        conf["suite_tail"] = res.get("suite_tail"); conf["suite_failed_tests"] = res.get("suite_failed")
    elif "suite_tail" in old:
        conf["suite_tail"] = old["suite_tail"]; conf["suite_failed_tests"] = old.get("suite_failed_tests")
    checks = dict(old.get("checks", {})); checks.update({k + ":" + tier: v for k, v in res["checks"].items()})
    conf["checks"] = checks
    meta["confirmed_by_me"] = conf
    json.dump(meta, open(dst + "/meta.json", "w"), indent=1)
    print("kept in", dst)
