#!/bin/bash
# Runs the repository's own test suite with every verification guard OFF and compares
# the outcome with /root/.vp/BASELINE.json (every stable-pass test must still pass).
# Exit 0 iff no stable-pass test is failing or missing.
set -u
unset PYDROBERT_SPEECH_VERIF PYTHONPATH
OUT=$(mktemp /tmp/baseline_off.XXXXXX.xml)
(cd /repo && /venv/bin/python -m pytest -ra -q -p no:cacheprovider --timeout=900 \
    --continue-on-collection-errors --junitxml="$OUT" >/dev/null 2>&1)
/venv/bin/python - "$OUT" <<'PY'
import json, sys, xml.etree.ElementTree as ET
root = ET.parse(sys.argv[1]).getroot()
passed, failed = set(), set()
for tc in root.iter("testcase"):
    tid = (tc.get("classname") or "") + "::" + (tc.get("name") or "")
    if tc.find("failure") is not None or tc.find("error") is not None:
        failed.add(tid)
    elif tc.find("skipped") is None:
        passed.add(tid)
passed -= failed
base = json.load(open("/root/.vp/BASELINE.json"))
stable = set(base["stable_pass"])
missing = sorted(stable - passed)
newly = sorted(passed & set(base.get("always_fail", [])))
print(f"passed={len(passed)} failed={len(failed)} stable_pass={len(stable)} "
      f"stable_not_passing={len(missing)} always_fail_now_passing={len(newly)}")
for t in missing[:50]:
    print("REGRESSION", t)
sys.exit(1 if missing else 0)
PY
rc=$?
rm -f "$OUT"
exit $rc
