#!/bin/bash
# tools/sweep.sh <tier> <seed> [<seed> ...]   - run every check of the tier for each seed; one line per run.
# Exit 1 if any run does not exit 0 (a false alarm on the unchanged tree, or an inconclusive run).
tier=$1; shift
bad=0
cd "$(dirname "$0")/.."
for seed in "$@"; do
  for n in 01 02 03 04 05 06 07 08 09 10 11 12 13 14 15 16 17 18 19 20; do
    out=$(VERIF_SEED=$seed ./check C$n "$tier" 2>&1); rc=$?
    echo "$out" | grep -E "^(VIOLATION|INCONCLUSIVE|  what)" | head -6
    echo "$out" | tail -1 | cut -c1-170
    [ $rc -ne 0 ] && bad=1
  done
done
exit $bad
